// Kani harnesses for src/network/compression.rs (appended to a scratch copy of the crate as a child module of
// `compression`, so the private functions are in scope).  BOUNDED stand-ins: every bound is stated in the
// harness name table of /verif/tools/kani_runner.py and in the evidence; none of them is counted as a proof.
use super::*;

/// decoded-length cap for the bounded totality harness (the unbounded cap MAX_DECODED_LEN is what the Verus
/// proof of check_rle_stream establishes; CBMC cannot unwind an 8 MB fill loop)
const K_TOTAL: usize = 12;

fn any_bytes<const N: usize>() -> ([u8; N], usize) {
    let a: [u8; N] = kani::any();
    let n: usize = kani::any();
    kani::assume(n <= N);
    (a, n)
}

/// C14.decode_total / C08.codec_total (bounded): for EVERY byte string of length <= 4 that the stream check
/// accepts with a decoded length <= K_TOTAL, and for every rejected one, `decode` returns (Ok or Err) without a
/// panic, an out-of-bounds index or an arithmetic overflow -- through the real bitfield_rle and varinteger code.
#[kani::proof]
#[kani::unwind(16)]
fn cdc_decode_total_4() {
    let (d, n) = any_bytes::<4>();
    let data = &d[..n];
    if let Ok(t) = check_rle_stream(data) {
        kani::assume(t <= K_TOTAL);
    }
    let reference = [0u8; 2];
    let r = decode(&reference, data);
    kani::cover!(r.is_ok(), "some payload decodes");
    kani::cover!(r.is_err(), "some payload is rejected");
}

#[kani::proof]
#[kani::unwind(20)]
fn cdc_decode_total_6() {
    let (d, n) = any_bytes::<6>();
    let data = &d[..n];
    if let Ok(t) = check_rle_stream(data) {
        kani::assume(t <= K_TOTAL);
    }
    let reference = [0u8; 2];
    let r = decode(&reference, data);
    kani::cover!(r.is_ok(), "some payload decodes");
    kani::cover!(r.is_err(), "some payload is rejected");
}

/// C14.delta_total (bounded): delta_decode is total on every byte string of length <= 6 against every reference of
/// length <= 2
#[kani::proof]
#[kani::unwind(9)]
fn cdc_delta_total_6() {
    let (d, n) = any_bytes::<6>();
    let (r, rn) = any_bytes::<2>();
    let out = delta_decode(&r[..rn], &d[..n]);
    kani::cover!(out.is_ok(), "some buffer splits into inputs");
    kani::cover!(out.is_err(), "some buffer is rejected");
}

/// C14.delta_rt (bounded): delta_decode(r, delta_encode(r, [x0, x1])) == [x0, x1] for every reference of length <= 2
/// and every two inputs of length <= 3 (all byte values symbolic, so 0x00/0xFF runs are inside the domain)
#[kani::proof]
#[kani::unwind(9)]
fn cdc_delta_roundtrip_2x3() {
    let (r, rn) = any_bytes::<2>();
    let (a, an) = any_bytes::<3>();
    let (b, bn) = any_bytes::<3>();
    let xs: Vec<Vec<u8>> = vec![a[..an].to_vec(), b[..bn].to_vec()];
    let enc = delta_encode(&r[..rn], xs.iter());
    let dec = delta_decode(&r[..rn], &enc);
    match dec {
        Ok(ys) => {
            assert!(ys.len() == 2);
            assert!(ys[0] == xs[0]);
            assert!(ys[1] == xs[1]);
        }
        Err(_) => assert!(false, "round trip failed to decode"),
    }
}

/// C14.rt (bounded): the full codec, through the run-length layer: decode(r, encode(r, [x0])) == [x0] for every
/// reference of length <= 2 and every input of length <= 3
#[kani::proof]
#[kani::unwind(12)]
fn cdc_roundtrip_1x3() {
    let (r, rn) = any_bytes::<2>();
    let (a, an) = any_bytes::<3>();
    let xs: Vec<Vec<u8>> = vec![a[..an].to_vec()];
    let enc = encode(&r[..rn], xs.iter());
    let dec = decode(&r[..rn], &enc);
    match dec {
        Ok(ys) => {
            assert!(ys.len() == 1);
            assert!(ys[0] == xs[0]);
        }
        Err(_) => assert!(false, "round trip failed to decode"),
    }
}

/// stub for alloc::fmt::format (error-message formatting dominates CBMC's cost and is irrelevant to the properties)
pub fn stub_format(_args: core::fmt::Arguments<'_>) -> String {
    String::new()
}

#[kani::proof]
#[kani::unwind(12)]
#[kani::stub(alloc::fmt::format, stub_format)]
fn cdc_decode_total_3() {
    let (d, n) = any_bytes::<3>();
    let data = &d[..n];
    if let Ok(t) = check_rle_stream(data) {
        kani::assume(t <= 8);
    }
    let reference = [0u8; 2];
    let r = decode(&reference, data);
    kani::cover!(r.is_ok(), "some payload decodes");
    kani::cover!(r.is_err(), "some payload is rejected");
}
