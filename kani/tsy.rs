// Kani harnesses for src/time_sync.rs (child module of `time_sync` in a scratch copy of the crate).
// The two loops of average_frame_advantage have the constant trip count FRAME_WINDOW_SIZE = 30 and are fully
// unrolled (unwinding assertions on), so each harness is COMPLETE for the symbolic domain stated with it.
use super::*;

fn filled(a: i32, b: i32) -> TimeSync {
    let mut ts = TimeSync::new();
    let mut f: Frame = 0;
    while f < FRAME_WINDOW_SIZE as i32 {
        ts.advance_frame(f, a, b);
        f += 1;
    }
    ts
}

/// C15.avg: for every a, b in i16, a window filled with local=a, remote=b averages to (b-a)/2 (truncating):
/// +k for the side that is k ahead... and the two sides' values sum to zero.
#[kani::proof]
#[kani::unwind(32)]
fn tsy_average_full() {
    let a: i16 = kani::any();
    let b: i16 = kani::any();
    let ts = filled(a as i32, b as i32);
    let r = ts.average_frame_advantage();
    assert!(r == ((b as i32) - (a as i32)) / 2);
    let other = filled(b as i32, a as i32).average_frame_advantage();
    assert!(r + other == 0);
}

#[kani::proof]
#[kani::unwind(32)]
fn tsy_average_small() {
    let a: i8 = kani::any();
    let b: i8 = kani::any();
    kani::assume(a >= -64 && a <= 64 && b >= -64 && b <= 64);
    let ts = filled(a as i32, b as i32);
    let r = ts.average_frame_advantage();
    assert!(r == ((b as i32) - (a as i32)) / 2);
    kani::cover!(r == 3, "a recommendation-sized lead is reachable");
}

/// C15.avg: advance_frame writes exactly the slot frame % 30 of both windows
#[kani::proof]
fn tsy_advance_slot() {
    let mut ts = TimeSync::new();
    let frame: Frame = kani::any();
    kani::assume(frame >= 0);
    let l: i32 = kani::any();
    let r: i32 = kani::any();
    let k: usize = kani::any();
    kani::assume(k < FRAME_WINDOW_SIZE);
    ts.advance_frame(frame, l, r);
    if k == frame as usize % FRAME_WINDOW_SIZE {
        assert!(ts.local[k] == l && ts.remote[k] == r);
    } else {
        assert!(ts.local[k] == 0 && ts.remote[k] == 0);
    }
}
