//! Bounded (exhaustive) checks of the REAL codec text: /repo/src/network/compression.rs is textually included
//! (include!), its private functions are reached through the wrappers below, the run-length layer is the real
//! bitfield-rle / varinteger crates.  Built with overflow checks and debug assertions ON.
//! This is a BOUNDED stand-in (every bound is printed); it is never counted as a proof.
use std::alloc::{GlobalAlloc, Layout, System};

#[allow(dead_code, unused_imports)]
mod compression {
    include!(concat!(env!("VERIF_REPO_SRC"), "/network/compression.rs"));
    pub fn x_encode(r: &[u8], xs: &[Vec<u8>]) -> Vec<u8> { encode(r, xs.iter()) }
    pub fn x_decode(r: &[u8], d: &[u8]) -> Result<Vec<Vec<u8>>, String> { decode(r, d).map_err(|e| e.to_string()) }
    pub fn x_delta_encode(r: &[u8], xs: &[Vec<u8>]) -> Vec<u8> { delta_encode(r, xs.iter()) }
    pub fn x_delta_decode(r: &[u8], d: &[u8]) -> Result<Vec<Vec<u8>>, String> { delta_decode(r, d).map_err(|e| e.to_string()) }
    pub const X_MAX_DECODED_LEN: usize = MAX_DECODED_LEN;
}
use compression::*;

struct Counting;
thread_local! { static MAX_ALLOC: std::cell::Cell<usize> = const { std::cell::Cell::new(0) }; }
fn note(n: usize) { let _ = MAX_ALLOC.try_with(|c| if n > c.get() { c.set(n) }); }
unsafe impl GlobalAlloc for Counting {
    unsafe fn alloc(&self, l: Layout) -> *mut u8 { note(l.size()); System.alloc(l) }
    unsafe fn dealloc(&self, p: *mut u8, l: Layout) { System.dealloc(p, l) }
    unsafe fn alloc_zeroed(&self, l: Layout) -> *mut u8 { note(l.size()); System.alloc_zeroed(l) }
    unsafe fn realloc(&self, p: *mut u8, l: Layout, n: usize) -> *mut u8 { note(n); System.realloc(p, l, n) }
}
#[global_allocator]
static A: Counting = Counting;

fn hex(b: &[u8]) -> String { b.iter().map(|x| format!("{x:02x}")).collect() }
fn unhex(s: &str) -> Vec<u8> { (0..s.len() / 2).map(|i| u8::from_str_radix(&s[2 * i..2 * i + 2], 16).unwrap()).collect() }

/// one decode-totality case; Err(description) = violation
fn case_decode(reference: &[u8], data: &[u8]) -> Result<bool, String> {
    MAX_ALLOC.with(|c| c.set(0));
    let r = std::panic::catch_unwind(|| x_decode(reference, data));
    match r {
        Err(_) => Err(format!("decode panicked: ref={} data={}", hex(reference), hex(data))),
        Ok(res) => {
            let m = MAX_ALLOC.with(|c| c.get());
            // The bound that follows from the validator (check_rle_stream: decoded length <= MAX_DECODED_LEN): the run-length
            // layer allocates the decoded buffer once (<= MAX_DECODED_LEN bytes); delta_decode then splits it into at most
            // MAX_DECODED_LEN / 2 chunks (a chunk costs at least its 2-byte length prefix), each a Vec header of 24 bytes in a
            // Vec that grows by doubling: one allocation of at most 2 * (MAX_DECODED_LEN / 2) * 24 = 24 * MAX_DECODED_LEN bytes
            // (about 203 MB; reached by four-byte payloads such as 81 80 80 0f -- observation O8 in DESIGN.md).  An earlier
            // version of this check used 4 * MAX_DECODED_LEN, which the code never promised: that was a false alarm of the
            // thorough tier (DESIGN.md 8.4).
            if m > 24 * X_MAX_DECODED_LEN {
                return Err(format!("decode allocated {m} bytes at once (> 24*MAX_DECODED_LEN): ref={} data={}", hex(reference), hex(data)));
            }
            Ok(res.is_ok())
        }
    }
}
fn case_delta(reference: &[u8], data: &[u8]) -> Result<bool, String> {
    match std::panic::catch_unwind(|| x_delta_decode(reference, data)) {
        Err(_) => Err(format!("delta_decode panicked: ref={} data={}", hex(reference), hex(data))),
        Ok(r) => Ok(r.is_ok()),
    }
}
fn case_rt(reference: &[u8], xs: &[Vec<u8>]) -> Result<(), String> {
    let show = || format!("ref={} inputs=[{}]", hex(reference), xs.iter().map(|x| hex(x)).collect::<Vec<_>>().join(","));
    let r = std::panic::catch_unwind(|| {
        let e = x_encode(reference, xs);
        let d = x_decode(reference, &e);
        let de = x_delta_encode(reference, xs);
        let dd = x_delta_decode(reference, &de);
        (d, dd)
    });
    match r {
        Err(_) => Err(format!("round trip panicked: {}", show())),
        Ok((d, dd)) => {
            if dd.as_ref().ok() != Some(&xs.to_vec()) { return Err(format!("delta round trip differs: {} got {:?}", show(), dd)); }
            if d.as_ref().ok() != Some(&xs.to_vec()) { return Err(format!("codec round trip differs: {} got {:?}", show(), d)); }
            Ok(())
        }
    }
}

fn strings_over(alpha: &[u8], maxlen: usize) -> Vec<Vec<u8>> {
    let mut out = vec![vec![]];
    let mut last = vec![vec![]];
    for _ in 0..maxlen {
        let mut next = Vec::new();
        for s in &last { for &a in alpha { let mut t: Vec<u8> = s.clone(); t.push(a); next.push(t); } }
        out.extend(next.iter().cloned());
        last = next;
    }
    out
}


/// T2c: structured long cases, regenerated from four numbers (so that a counterexample is replayable without storing 64 KiB of hex):
/// reference of `r` bytes, `n` inputs of `l` bytes each, content pattern `p` (0: one byte value per input -- long runs; otherwise varying)
fn gen_case(r: usize, n: usize, l: usize, p: usize) -> (Vec<u8>, Vec<Vec<u8>>) {
    let reference: Vec<u8> = (0..r).map(|i| (i * 7 + 3) as u8).collect();
    let xs: Vec<Vec<u8>> = (0..n).map(|k| (0..l).map(|j| (k * 31 + j * p + 1) as u8).collect()).collect();
    (reference, xs)
}
struct Rng(u64);
impl Rng { fn next(&mut self) -> u64 { self.0 ^= self.0 << 13; self.0 ^= self.0 >> 7; self.0 ^= self.0 << 17; self.0 } }

fn main() {
    std::panic::set_hook(Box::new(|_| {}));
    let args: Vec<String> = std::env::args().collect();
    let mode = args.get(1).map(|s| s.as_str()).unwrap_or("quick");
    let seed: u64 = std::env::var("VERIF_SEED").ok().and_then(|s| s.parse().ok()).unwrap_or(0);
    if mode == "replay" {
        // replay <kind> <ref-hex> <data-hex | in1,in2,...>
        let kind = &args[2];
        let r = if kind == "gen" { vec![] } else { unhex(&args[3]) };
        let res = match kind.as_str() {
            "decode" => case_decode(&r, &unhex(&args[4])).map(|_| ()),
            "delta" => case_delta(&r, &unhex(&args[4])).map(|_| ()),
            "rt" => { let xs: Vec<Vec<u8>> = if args[4].is_empty() { vec![] } else { args[4].split(',').map(unhex).collect() }; case_rt(&r, &xs) }
            "gen" => { let v: Vec<usize> = args[4].split(',').map(|x| x.parse().unwrap()).collect(); let (r0, xs) = gen_case(args[3].parse().unwrap(), v[0], v[1], v[2]); case_rt(&r0, &xs) }
            _ => Err("unknown kind".into()),
        };
        match res { Ok(()) => { println!("REPLAY-OK"); } Err(e) => { println!("REPLAY-FAIL {e}"); std::process::exit(1); } }
        return;
    }
    let thorough = mode == "thorough";
    let mut evals: u64 = 0;
    let mut ok_decodes: u64 = 0;
    let mut violations: Vec<String> = Vec::new();
    let mut samples: Vec<String> = Vec::new();
    let refs: [&[u8]; 2] = [&[0, 0], &[0xAA, 0x55, 1, 2]];
    // T1/T3: every byte string up to length 3 (thorough: plus length 4 over a 24-value alphabet that contains the
    // varint / run-length boundary values)
    // (parallel over the first byte; quick: length 3 against one reference, lengths <= 2 against both)
    let t1 = std::sync::Mutex::new((0u64, 0u64, Vec::<String>::new(), Vec::<String>::new()));
    std::thread::scope(|sc| {
        for chunk in 0..16u32 {
            let t1 = &t1;
            let refs = &refs;
            sc.spawn(move || {
                let mut ev = 0u64; let mut okd = 0u64; let mut viol: Vec<String> = Vec::new(); let mut samp: Vec<String> = Vec::new();
                let mut run = |reference: &[u8], data: &[u8]| {
                    ev += 2;
                    match case_decode(reference, data) { Ok(true) => okd += 1, Ok(false) => {}, Err(e) => { if viol.len() < 3 { viol.push(format!("decode|{}|{} :: {e}", hex(reference), hex(data))); } } }
                    if let Err(e) = case_delta(reference, data) { if viol.len() < 3 { viol.push(format!("delta|{}|{} :: {e}", hex(reference), hex(data))); } }
                };
                for (ri, reference) in refs.iter().enumerate() {
                    if chunk == 0 { run(reference, &[]); }
                    for a in (chunk * 16)..(chunk * 16 + 16) {
                        let a = a as u8;
                        run(reference, &[a]);
                        for b in 0..=255u8 {
                            run(reference, &[a, b]);
                            if ri == 0 || thorough {
                                for c in 0..=255u8 { run(reference, &[a, b, c]); }
                                if b == 0x83 && a % 16 == 5 { samp.push(format!("decode ref={} data={}", hex(reference), hex(&[a, b, 0x7f]))); }
                            }
                        }
                    }
                }
                let mut g = t1.lock().unwrap();
                g.0 += ev; g.1 += okd; g.2.extend(viol); g.3.extend(samp);
            });
        }
    });
    { let g = t1.lock().unwrap(); evals += g.0; ok_decodes += g.1; violations.extend(g.2.iter().take(5).cloned()); samples.extend(g.3.iter().take(4).cloned()); }
    if thorough {
        let alpha: Vec<u8> = vec![0, 1, 2, 3, 4, 5, 7, 8, 0x0f, 0x10, 0x3f, 0x40, 0x7e, 0x7f, 0x80, 0x81, 0xbf, 0xc0, 0xfc, 0xfd, 0xfe, 0xff, 0x55, 0xaa];
        for data in strings_over(&alpha, 4).into_iter().filter(|s| s.len() == 4) {
            evals += 1;
            if let Err(e) = case_decode(refs[0], &data) { if violations.len() < 5 { violations.push(format!("decode|{}|{} :: {e}", hex(refs[0]), hex(&data))); } }
        }
        // long varints: 5..10 byte varints with all continuation patterns of interest
        for n in 5..=11usize { for last in [0x00u8, 0x01, 0x0f, 0x7f] { for first in [0xfdu8, 0xfe, 0xff, 0x80, 0x81] {
            let mut d = vec![0xffu8; n]; d[0] = first; d[n - 1] = last; evals += 1;
            if let Err(e) = case_decode(refs[0], &d) { if violations.len() < 5 { violations.push(format!("decode|{}|{} :: {e}", hex(refs[0]), hex(&d))); } }
        } } }
    }
    // T2: round trips over the alphabet {00, 01, ff, 80}
    let alpha = [0x00u8, 0x01, 0xff, 0x80];
    let inputs3 = strings_over(&alpha, 3);
    let inputs2 = strings_over(&alpha, 2);
    let rrefs = strings_over(&alpha, 2);
    for r in &rrefs {
        evals += 1; if let Err(e) = case_rt(r, &[]) { violations.push(format!("rt|{}| :: {e}", hex(r))); }
        for a in &inputs3 {
            evals += 1; if let Err(e) = case_rt(r, &[a.clone()]) { if violations.len() < 5 { violations.push(format!("rt|{}|{} :: {e}", hex(r), hex(a))); } }
            for b in &inputs3 {
                evals += 1; if let Err(e) = case_rt(r, &[a.clone(), b.clone()]) { if violations.len() < 5 { violations.push(format!("rt|{}|{},{} :: {e}", hex(r), hex(a), hex(b))); } }
            }
        }
        let third: &Vec<Vec<u8>> = if thorough { &inputs3 } else { &inputs2 };
        for a in third { for b in third { for c in third {
            evals += 1; if let Err(e) = case_rt(r, &[a.clone(), b.clone(), c.clone()]) { if violations.len() < 5 { violations.push(format!("rt|{}|{},{},{} :: {e}", hex(r), hex(a), hex(b), hex(c))); } }
        } } }
    }
    samples.push(format!("rt ref={} inputs=[{},{}]", hex(&rrefs[5]), hex(&inputs3[20]), hex(&inputs3[70])));
    // T2c: long inputs and long sequences (the lengths around the byte boundaries of the 2-byte length prefix, the largest length, and
    // sequences around the 128/129 inputs a packet can carry)
    for &r in &[0usize, 2, 300] { for &p in &[0usize, 13] {
        for &n in &[1usize, 2, 3] { for &l in &[0usize, 1, 2, 3, 254, 255, 256, 257, 258, 511, 512, 513, 1000, 4096, 65534, 65535] {
            let (r0, xs) = gen_case(r, n, l, p); evals += 1;
            if let Err(e) = case_rt(&r0, &xs) { if violations.len() < 5 { violations.push(format!("gen|{r}|{n},{l},{p} :: {}", &e[..e.len().min(300)])); } }
        } }
        for &n in &[127usize, 128, 129, 130, 200, 300] { for &l in &[0usize, 1, 4] {
            let (r0, xs) = gen_case(r, n, l, p); evals += 1;
            if let Err(e) = case_rt(&r0, &xs) { if violations.len() < 5 { violations.push(format!("gen|{r}|{n},{l},{p} :: {}", &e[..e.len().min(300)])); } }
        } }
    } }
    samples.push("rt-gen ref_len=300 inputs=3 x 65535 bytes, pattern 13".to_string());
    // T2b: long inputs with runs of 00/ff around the run-length and varint boundaries (seeded)
    let mut rng = Rng(0x9E3779B97F4A7C15 ^ seed.wrapping_mul(0xD1B54A32D192ED03) | 1);
    let n_long = if thorough { 20000 } else { 2000 };
    for i in 0..n_long {
        let nin = 1 + (rng.next() % 4) as usize;
        let rl = [0usize, 1, 4, 33][(rng.next() % 4) as usize];
        let reference: Vec<u8> = (0..rl).map(|_| [0u8, 0xff, 7][(rng.next() % 3) as usize]).collect();
        let mut xs = Vec::new();
        for _ in 0..nin {
            let total = [0usize, 1, 30, 31, 32, 33, 63, 64, 65, 127, 128, 129, 300, 4095, 4096, 8191, 8193][(rng.next() % 17) as usize];
            let mut v = Vec::with_capacity(total);
            while v.len() < total {
                let run = 1 + (rng.next() % 70) as usize;
                let b = match rng.next() % 5 { 0 | 1 => 0u8, 2 | 3 => 0xff, _ => (rng.next() & 0xff) as u8 };
                for _ in 0..run.min(total - v.len()) { v.push(b); }
            }
            xs.push(v);
        }
        evals += 1;
        if let Err(e) = case_rt(&reference, &xs) { if violations.len() < 5 { violations.push(format!("rtlong|| :: {}", &e[..e.len().min(400)])); } }
        if i == 7 { samples.push(format!("rt-long ref_len={} input_lens={:?}", reference.len(), xs.iter().map(|x| x.len()).collect::<Vec<_>>())); }
    }
    println!("RESULT evals={evals} ok_decodes={ok_decodes} violations={}", violations.len());
    for s in &samples { println!("SAMPLE {s}"); }
    for v in &violations { println!("VIOLATION-CASE {v}"); }
    if !violations.is_empty() { std::process::exit(1); }
}
