//! Witness finder (never decides anything: it only runs after a Verus obligation of unit `iq` / `sl` failed).
//! The REAL src/frame_info.rs, src/input_queue.rs and src/sync_layer.rs are textually included; only the handful
//! of crate-level declarations they import (Config without its serde bounds, Frame, InputStatus, the predictors,
//! ConnectionStatus, GgrsRequest) are restated here.  Random operation sequences (seeded) are run against a
//! reference model written from the property statements; the first disagreement or panic is printed as a
//! replayable sequence.
#![allow(dead_code, unused_imports, clippy::all)]
use std::fmt::Debug;
use std::hash::Hash;

pub const NULL_FRAME: i32 = -1;
pub type Frame = i32;
pub type PlayerHandle = usize;
#[derive(Debug, Copy, Clone, PartialEq, Eq)]
pub enum InputStatus { Confirmed, Predicted, Disconnected }
pub trait InputPredictor<I> { fn predict(previous: I) -> I; }
pub struct PredictRepeatLast;
impl<I> InputPredictor<I> for PredictRepeatLast { fn predict(previous: I) -> I { previous } }
pub struct PredictDefault;
impl<I: Default> InputPredictor<I> for PredictDefault { fn predict(_previous: I) -> I { I::default() } }
pub trait Config: 'static {
    type Input: Copy + Clone + PartialEq + Default;
    type InputPredictor: InputPredictor<Self::Input>;
    type State;
    type Address: Clone + PartialEq + Eq + Hash + Debug;
}
pub enum GgrsRequest<T: Config> {
    SaveGameState { cell: sync_layer::GameStateCell<T::State>, frame: Frame },
    LoadGameState { cell: sync_layer::GameStateCell<T::State>, frame: Frame },
    AdvanceFrame { inputs: Vec<(T::Input, InputStatus)> },
}
pub mod network { pub mod messages {
    use crate::{Frame, NULL_FRAME};
    #[derive(Copy, Clone, Debug, PartialEq, Eq)]
    pub struct ConnectionStatus { pub disconnected: bool, pub last_frame: Frame }
    impl Default for ConnectionStatus { fn default() -> Self { Self { disconnected: false, last_frame: NULL_FRAME } } }
} }
pub mod frame_info { include!(concat!(env!("VERIF_REPO_SRC"), "/frame_info.rs")); }
pub mod input_queue {
    include!(concat!(env!("VERIF_REPO_SRC"), "/input_queue.rs"));
    // accessors for the witness finder (private fields are visible inside the module)
    impl<T: Config> InputQueue<T> {
        pub fn x_last_added(&self) -> Frame { self.last_added_frame }
        pub fn x_length(&self) -> usize { self.length }
        pub fn x_first_incorrect(&self) -> Frame { self.first_incorrect_frame }
        pub fn x_set_frame_delay(&mut self, d: usize) -> Vec<(Frame, T::Input)> { self.set_frame_delay(d).into_iter().map(|p| (p.frame, p.input)).collect() }
    }
}
pub mod sync_layer { include!(concat!(env!("VERIF_REPO_SRC"), "/sync_layer.rs")); }

use frame_info::PlayerInput;
use input_queue::InputQueue;

struct CfgRepeat;
impl Config for CfgRepeat { type Input = u8; type InputPredictor = PredictRepeatLast; type State = u8; type Address = u8; }
struct CfgDefault;
impl Config for CfgDefault { type Input = u8; type InputPredictor = PredictDefault; type State = u8; type Address = u8; }

struct Rng(u64);
impl Rng { fn next(&mut self) -> u64 { self.0 ^= self.0 << 13; self.0 ^= self.0 >> 7; self.0 ^= self.0 << 17; self.0 } fn below(&mut self, n: u64) -> u64 { self.next() % n } }

#[derive(Clone, Debug)]
enum Op { Add(u8), SetDelay(usize), Ask, Reset, Discard(i32), Confirmed(i32) }

/// reference model of one player's input stream, written from C01/C03/C11: a map frame -> input that only grows
/// at its end, a delay, what was announced, and the prediction episode
struct Model { stored: Vec<u8>, tail: i32, delay: usize, last_user: i32, cur: i32, announced: Vec<(i32, u8)>,
               predicting: Option<u8>, first_incorrect: i32, last_requested: i32 }

fn run_queue<T: Config<Input = u8>>(ops: &[Op], repeat_last: bool) -> Result<(), String> {
    let mut q = InputQueue::<T>::new();
    let mut m = Model { stored: vec![], tail: 0, delay: 0, last_user: -1, cur: 0, announced: vec![], predicting: None, first_incorrect: -1, last_requested: -1 };
    for (step, op) in ops.iter().enumerate() {
        let ctx = |s: &str| format!("step {step} {op:?}: {s}");
        match *op {
            Op::SetDelay(d) => {
                let fills = q.x_set_frame_delay(d);
                m.delay = d;
                // C11.fill: the fills are exactly the frames newly stored: consecutive from the end, copies of the newest input
                let mut expect = vec![];
                if !m.stored.is_empty() {
                    let last = *m.stored.last().unwrap();
                    while (m.stored.len() as i32 - 1) < m.last_user + d as i32 { m.stored.push(last); expect.push((m.stored.len() as i32 - 1, last)); }
                }
                if fills != expect { return Err(ctx(&format!("set_frame_delay announced {fills:?}, the stream requires {expect:?}"))); }
                for (f, v) in &fills { note_arrival(&mut m, *f, *v); }
                m.announced.extend(expect);
            }
            Op::Add(v) => {
                // submit the next user frame (sequential) or, sometimes, repeat the previous one (must be dropped)
                let frame = m.last_user + 1;
                let r = q.add_input(PlayerInput::new(frame, v));
                m.last_user = frame;
                let target = frame + m.delay as i32;
                let newest = m.stored.len() as i32 - 1;
                if target <= newest {
                    if r != NULL_FRAME { return Err(ctx(&format!("add_input returned {r}, but frame {target} is already held (must be dropped)"))); }
                } else {
                    if r != target { return Err(ctx(&format!("add_input returned {r}, expected {target}"))); }
                    // before the first input the gap is filled with defaults; later there must be no gap (C11 nogap)
                    while (m.stored.len() as i32) < target {
                        if newest >= 0 { return Err(ctx("a silent fill after the first input (the queue owed a frame)")); }
                        let f = m.stored.len() as i32; m.stored.push(0); note_arrival(&mut m, f, 0);
                    }
                    m.stored.push(v); note_arrival(&mut m, target, v);
                    m.announced.push((target, v));
                }
            }
            Op::Ask => {
                if m.first_incorrect != -1 { continue; } // the API forbids asking before the rollback
                let f = m.cur;
                if f < m.tail { continue; }
                let (val, st) = q.input(f);
                m.last_requested = f;
                let newest = m.stored.len() as i32 - 1;
                if m.predicting.is_none() && f <= newest {
                    if st != InputStatus::Confirmed || val != m.stored[f as usize] { return Err(ctx(&format!("frame {f} is held ({}) but handed out as ({val}, {st:?})", m.stored[f as usize]))); }
                } else {
                    let p = match m.predicting { Some(p) => p, None => {
                        let p = if f == 0 || newest < 0 { 0 } else if repeat_last { m.stored[newest as usize] } else { 0 };
                        m.predicting = Some(p); p } };
                    if st != InputStatus::Predicted || val != p { return Err(ctx(&format!("frame {f}: expected (Predicted, {p}), got ({val}, {st:?})"))); }
                }
                m.cur += 1;
            }
            Op::Reset => {
                // a rollback: go back to the first incorrect frame (or stay), forget the prediction episode
                q.reset_prediction();
                if m.first_incorrect != -1 { m.cur = m.first_incorrect; }
                m.predicting = None; m.first_incorrect = -1; m.last_requested = -1;
            }
            Op::Discard(back) => {
                if m.first_incorrect != -1 || m.stored.is_empty() { continue; }
                // discard below (cur - back), never below what is still needed and never the newest input
                let f = (m.cur - back).max(0);
                let eff = if m.last_requested != -1 { f.min(m.last_requested) } else { f };
                if eff >= m.stored.len() as i32 - 1 { continue; } // would empty the queue: only done to disconnected players
                q.discard_confirmed_frames(f);
                if eff > m.tail { m.tail = eff; }
            }
            Op::Confirmed(back) => {
                let newest = m.stored.len() as i32 - 1;
                let f = newest - back;
                if f < m.tail || f < 0 { continue; }
                let pi = q.confirmed_input(f);
                if pi.frame != f || pi.input != m.stored[f as usize] { return Err(ctx(&format!("confirmed_input({f}) = ({}, {}), stored {}", pi.frame, pi.input, m.stored[f as usize]))); }
            }
        }
        if q.first_incorrect_frame() != m.first_incorrect {
            return Err(ctx(&format!("first_incorrect_frame is {}, the inputs handed out and received imply {}", q.first_incorrect_frame(), m.first_incorrect)));
        }
        if q.x_last_added() != m.stored.len() as i32 - 1 { return Err(ctx(&format!("last_added_frame {} vs {} stored frames", q.x_last_added(), m.stored.len()))); }
    }
    // announced == stored
    for (f, v) in &m.announced {
        if *f >= m.tail && q.confirmed_input(*f).input != *v { return Err(format!("frame {f} was announced with {v} but the queue holds {}", q.confirmed_input(*f).input)); }
    }
    Ok(())
}

/// an input for frame f arrives while (possibly) predicting: C01.q_detect
fn note_arrival(m: &mut Model, f: i32, v: u8) {
    if let Some(p) = m.predicting {
        if m.first_incorrect == -1 && v != p { m.first_incorrect = f; }
        if f == m.last_requested && m.first_incorrect == -1 { m.predicting = None; }
    }
}

fn gen_ops(rng: &mut Rng, n: usize) -> Vec<Op> {
    let mut ops = Vec::new();
    for _ in 0..n {
        ops.push(match rng.below(100) {
            0..=44 => Op::Add([0u8, 1, 1, 2, 7][rng.below(5) as usize]),
            45..=69 => Op::Ask,
            70..=77 => Op::SetDelay(rng.below(5) as usize),
            78..=85 => Op::Reset,
            86..=93 => Op::Discard(rng.below(6) as i32),
            _ => Op::Confirmed(rng.below(4) as i32),
        });
    }
    ops
}

fn main() {
    std::panic::set_hook(Box::new(|_| {}));
    let seed: u64 = std::env::var("VERIF_SEED").ok().and_then(|s| s.parse().ok()).unwrap_or(0);
    let n: usize = std::env::args().nth(1).and_then(|s| s.parse().ok()).unwrap_or(20000);
    let mut rng = Rng(0x9E3779B97F4A7C15 ^ seed.wrapping_mul(0xD1B54A32D192ED03) | 1);
    let mut tried = 0u64;
    for round in 0..n {
        let len = 4 + (round % 60) + if round % 7 == 0 { 150 } else { 0 };
        let ops = gen_ops(&mut rng, len);
        for variant in 0..2 {
            tried += 1;
            let o2 = ops.clone();
            let r = std::panic::catch_unwind(move || if variant == 0 { run_queue::<CfgRepeat>(&o2, true) } else { run_queue::<CfgDefault>(&o2, false) });
            let bad = match r { Ok(Ok(())) => None, Ok(Err(e)) => Some(e), Err(_) => Some("the real code panicked".to_string()) };
            if let Some(e) = bad {
                // shrink: drop operations from the end, then single operations
                let mut best = ops.clone();
                let fails = |o: &Vec<Op>| { let o2 = o.clone(); let r = std::panic::catch_unwind(move || if variant == 0 { run_queue::<CfgRepeat>(&o2, true) } else { run_queue::<CfgDefault>(&o2, false) }); !matches!(r, Ok(Ok(()))) };
                let mut changed = true;
                while changed { changed = false; let mut i = 0; while i < best.len() { let mut c = best.clone(); c.remove(i); if fails(&c) { best = c; changed = true; } else { i += 1; } } }
                let o3 = best.clone();
                let msg = match std::panic::catch_unwind(move || if variant == 0 { run_queue::<CfgRepeat>(&o3, true) } else { run_queue::<CfgDefault>(&o3, false) }) { Ok(Err(e2)) => e2, Ok(Ok(())) => e.clone(), Err(_) => "the real code panicked".into() };
                println!("WITNESS predictor={} ops={:?}", if variant == 0 { "PredictRepeatLast" } else { "PredictDefault" }, best);
                println!("WITNESS-MSG {msg}");
                println!("RESULT tried={tried} found=1");
                std::process::exit(1);
            }
        }
    }
    println!("RESULT tried={tried} found=0");
}
