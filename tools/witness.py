#!/usr/bin/env python3
"""witness.py -- after a Verus obligation of the input queue failed, look for a concrete operation sequence on the
REAL InputQueue that contradicts the reference model (native/witness).  Never decides anything: it only runs for
an obligation that already failed, and a search that finds nothing leaves the violation reported as
`no-failing-input-found`."""
import os
import re
import subprocess

VERIF = os.path.dirname(os.path.dirname(os.path.abspath(__file__)))


def find(pid, v, repo, scratch, seed):
    fn = v.get('fn') or ''
    if v.get('unit') == 'cdc':
        return find_cdc(repo, scratch, seed)
    if not (v.get('unit') == 'iq' or fn.startswith('InputQueue::')):
        return None
    d = os.path.join(VERIF, 'native', 'witness')
    tgt = os.path.join(scratch, 'witness-target')
    env = dict(os.environ, VERIF_REPO_SRC=os.path.join(repo, 'src'), CARGO_TARGET_DIR=tgt, CARGO_NET_OFFLINE='true', VERIF_SEED=str(seed))
    b = subprocess.run(['cargo', 'build', '--release', '--offline'], cwd=d, env=env, capture_output=True, text=True, timeout=1200)
    if b.returncode != 0:
        return {'confirmed': False, 'note': 'witness harness does not build against the changed source: ' + b.stderr[-400:]}
    try:
        p = subprocess.run([os.path.join(tgt, 'release', 'verif-witness'), '60000'], env=env, capture_output=True, text=True, timeout=900)
    except subprocess.TimeoutExpired:
        return {'confirmed': False, 'note': 'witness search timed out'}
    m = re.search(r'^WITNESS (.*)$', p.stdout, re.M)
    mm = re.search(r'^WITNESS-MSG (.*)$', p.stdout, re.M)
    r = re.search(r'RESULT tried=(\d+) found=(\d+)', p.stdout)
    if m and r and r.group(2) == '1':
        return {'confirmed': True, 'kind': 'operation sequence on the real InputQueue (src/input_queue.rs included textually)',
                'sequence': m.group(1), 'disagreement': mm.group(1) if mm else '', 'sequences_tried': int(r.group(1)), 'seed': seed,
                'replay_cmd': 'cd %s && VERIF_SEED=%d VERIF_REPO_SRC=%s/src cargo run --release --offline -- 60000' % (d, seed, repo)}
    return {'confirmed': False, 'note': 'no disagreement with the reference model in %s random operation sequences' % (r.group(1) if r else '?')}


def find_cdc(repo, scratch, seed):
    """a Verus obligation of the codec unit failed: run the bounded native enumeration of the real codec (native/cdc) and take its first
    replayable counterexample, replayed once more on its own, as the witness"""
    d = os.path.join(VERIF, 'native', 'cdc')
    tgt = os.path.join(scratch, 'witness-target-cdc')
    env = dict(os.environ, VERIF_REPO_SRC=os.path.join(repo, 'src'), CARGO_TARGET_DIR=tgt, CARGO_NET_OFFLINE='true', VERIF_SEED=str(seed))
    b = subprocess.run(['cargo', 'build', '--release', '--offline'], cwd=d, env=env, capture_output=True, text=True, timeout=1200)
    if b.returncode != 0:
        return {'confirmed': False, 'note': 'codec harness does not build against the changed source: ' + b.stderr[-400:]}
    exe = os.path.join(tgt, 'release', 'verif-cdc')
    try:
        p = subprocess.run([exe, 'quick'], env=env, capture_output=True, text=True, timeout=1800)
    except subprocess.TimeoutExpired:
        return {'confirmed': False, 'note': 'codec enumeration timed out'}
    cases = re.findall(r'^VIOLATION-CASE ([a-z]+)\|([0-9a-f]*)\|([0-9a-f,]*) :: (.*)$', p.stdout, re.M)
    cases = [c for c in cases if c[0] in ('decode', 'delta', 'rt', 'gen')]
    if not cases:
        return {'confirmed': False, 'note': 'the bounded enumeration of the real codec found no failing input (its bounds: tools/native_runner.py)'}
    kind, rh, dh, desc = cases[0]
    rp = subprocess.run([exe, 'replay', kind, rh, dh], env=env, capture_output=True, text=True, timeout=600)
    return {'confirmed': 'REPLAY-FAIL' in rp.stdout, 'kind': kind, 'reference_hex': rh, 'data_hex': dh, 'description': desc[:400],
            'replay_cmd': 'cd %s && VERIF_REPO_SRC=%s/src cargo run --release --offline -- replay %s %s %s' % (d, repo, kind, rh, dh),
            'replay_output': rp.stdout[-400:]}
