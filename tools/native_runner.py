#!/usr/bin/env python3
"""native_runner.py -- BOUNDED stand-ins that execute the real code natively (exhaustive enumeration up to a stated
bound).  Used where neither verifier's front end reaches (the run-length layer of the codec: third-party crates,
Box<dyn Error>, iterator adapters).  Results are labelled bounded and never counted as proved."""
import os
import re
import subprocess
import time

VERIF = os.path.dirname(os.path.dirname(os.path.abspath(__file__)))

CHECKS = {
    'cdc_exhaust': {
        'dir': 'native/cdc', 'bin': 'verif-cdc',
        'bound': {
            'quick': 'decode/delta_decode: EVERY byte string of length <= 3 (reference [00,00]; lengths <= 2 also against [aa,55,01,02]); '
                     'round trip: every reference of length <= 2 and every sequence of <= 2 inputs of length <= 3 (<= 3 inputs of length <= 2) over the alphabet {00,01,ff,80}; '
                     '360 structured long cases (1-3 inputs of lengths 0..3, 254..258, 511..513, 1000, 4096, 65534, 65535 and 127..130 / 200 / 300 inputs of lengths 0, 1, 4, against references of 0, 2, 300 bytes, constant and varying content); '
                     '2000 seeded long inputs (lengths up to 8193, runs of 00/ff around the run-length / varint boundaries)',
            'thorough': 'as quick, plus: length-3 strings against both references, all length-4 strings over a 24-value boundary alphabet, 5..11-byte varints, '
                        '<= 3 inputs of length <= 3 in the round trip, 20000 seeded long inputs',
        },
        'label': 'C14.decode_total,C14.delta_total,C14.rt,C14.delta_rt,C08.codec_total',
    },
    'iq_model': {
        'dir': 'native/witness', 'bin': 'verif-witness',
        'bound': {
            'quick': '20000 seeded random operation sequences (length 4..214) x 2 predictors on the real InputQueue against the reference model',
            'thorough': '400000 seeded random operation sequences (length 4..214) x 2 predictors on the real InputQueue against the reference model',
        },
        'label': 'C01.q_lookup,C01.q_final,C01.q_detect,C03.confirmed,C03.predicted,C11.fill,C11.add',
        'args': {'quick': ['20000'], 'thorough': ['400000']},
    },
}


def run_checks(repo, names, tier, scratch, seed):
    out = {'checks': [], 'cmds': [], 'trusted': []}
    for name in names:
        c = CHECKS[name]
        t0 = time.time()
        tgt = os.path.join(scratch, 'native-target-' + name)
        env = dict(os.environ, VERIF_REPO_SRC=os.path.join(repo, 'src'), CARGO_TARGET_DIR=tgt, CARGO_NET_OFFLINE='true', VERIF_SEED=str(seed))
        d = os.path.join(VERIF, c['dir'])
        rec = {'name': name, 'bounded': True, 'bound': c['bound'][tier], 'label': c['label'], 'status': 'unknown', 'wall_s': 0, 'witness': None}
        b = subprocess.run(['cargo', 'build', '--release', '--offline'], cwd=d, env=env, capture_output=True, text=True)
        if b.returncode != 0:
            rec['status'] = 'undecided'
            rec['msg'] = 'the real source no longer builds inside the bounded harness: ' + b.stderr[-800:]
            out['checks'].append(rec)
            continue
        exe = os.path.join(tgt, 'release', c['bin'])
        cmd = [exe] + c.get('args', {}).get(tier, [tier])
        out['cmds'].append('VERIF_REPO_SRC=%s/src cargo build --release --offline (in %s) && %s %s' % (repo, c['dir'], c['bin'], tier))
        try:
            p = subprocess.run(cmd, env=env, capture_output=True, text=True, timeout=7200)
        except subprocess.TimeoutExpired:
            rec['status'] = 'undecided'
            rec['msg'] = 'timeout'
            out['checks'].append(rec)
            continue
        m = re.search(r'RESULT evals=(\d+) ok_decodes=(\d+) violations=(\d+)', p.stdout)
        mw = re.search(r'RESULT tried=(\d+) found=(\d+)', p.stdout)
        if mw and not m:
            rec['wall_s'] = time.time() - t0
            rec['evaluations'] = int(mw.group(1))
            if mw.group(2) == '0':
                rec['status'] = 'verified'
                rec['samples'] = ['(random operation sequences; a disagreement would be printed as WITNESS ...)']
            else:
                w = re.search(r'^WITNESS (.*)$', p.stdout, re.M)
                wm = re.search(r'^WITNESS-MSG (.*)$', p.stdout, re.M)
                rec['status'] = 'failed'
                rec['msg'] = (wm.group(1) if wm else 'model disagreement')[:300]
                rec['witness'] = {'confirmed': True, 'kind': 'operation sequence on the real InputQueue', 'sequence': w.group(1) if w else '', 'disagreement': wm.group(1) if wm else ''}
                rec['output'] = p.stdout[-1500:]
            out['checks'].append(rec)
            continue
        rec['wall_s'] = time.time() - t0
        rec['samples'] = re.findall(r'^SAMPLE (.*)$', p.stdout, re.M)
        if not m:
            rec['status'] = 'undecided'
            rec['msg'] = 'no RESULT line: ' + (p.stdout + p.stderr)[-500:]
        else:
            rec['evaluations'] = int(m.group(1))
            rec['accepted_payloads'] = int(m.group(2))
            cases = re.findall(r'^VIOLATION-CASE ([a-z]+)\|([0-9a-f]*)\|([0-9a-f,]*) :: (.*)$', p.stdout, re.M)
            cases.sort(key=lambda c_: 0 if c_[0] in ('decode', 'delta', 'rt', 'gen') else 1)  # replayable ones first
            if int(m.group(3)) == 0 and p.returncode == 0:
                rec['status'] = 'verified'
            else:
                rec['status'] = 'failed'
                rec['msg'] = '; '.join(c[3][:200] for c in cases[:3]) or 'violations reported'
                if cases:
                    kind, rh, dh, desc = cases[0]
                    if kind in ('decode', 'delta', 'rt', 'gen'):
                        rp = subprocess.run([exe, 'replay', kind, rh, dh], env=env, capture_output=True, text=True, timeout=600)
                        rec['witness'] = {'confirmed': 'REPLAY-FAIL' in rp.stdout, 'kind': kind, 'reference_hex': rh, 'data_hex': dh,
                                          'replay_cmd': 'cd %s && VERIF_REPO_SRC=%s/src cargo run --release --offline -- replay %s %s %s' % (d, repo, kind, rh, dh),
                                          'replay_output': rp.stdout[-600:]}
                    else:
                        rec['witness'] = {'confirmed': True, 'kind': kind, 'description': desc[:600]}
                rec['output'] = p.stdout[-2500:]
        out['checks'].append(rec)
    out['trusted'].append('bounded native checks: rustc/cargo, the real bitfield-rle 0.2.1 and varinteger 1.0.6 crates from the offline registry; '
                          'compression.rs is include!()d textually; built with overflow-checks and debug-assertions on')
    return out
