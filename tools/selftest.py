#!/usr/bin/env python3
"""selftest.py --setup : offline set-up / sanity of the framework (MANIFEST.setup_cmd).
  * verus and (optionally) cargo-kani answer;
  * every unit template generates from the current /repo working tree (all anchors found);
  * the generated text of every function, with the inserted annotation lines removed and the listed
    normalisations undone, is the text found in /repo/src (checked by construction in gen.py; re-checked here
    by comparing the non-annotation lines of the generated function against the source lines).
Nothing is downloaded; nothing is left under /tmp."""
import json
import os
import shutil
import subprocess
import sys

HERE = os.path.dirname(os.path.abspath(__file__))
sys.path.insert(0, HERE)
import gen  # noqa: E402
import runner  # noqa: E402


def norm(t):
    import re
    t = re.sub(r'->\s*\((\w+):\s*(.*)\)\s*$', r'-> \2', t.strip().rstrip('{').strip())   # I-1: named return value
    return re.sub(r'\s+', '', t)


def main():
    repo = os.environ.get('VERIF_REPO', '/repo')
    ok = True
    print('verus:', runner.verus_version())
    out = '/var/tmp/ggrs-verif.setup.%d' % os.getpid()
    try:
        for t in runner.unit_templates():
            try:
                rs, mp = gen.generate(repo, os.path.join(runner.UNITS_DIR, t), out)
            except gen.GenError as e:
                print('GEN-ERROR %s: %s' % (t, e))
                ok = False
                continue
            # verbatim check: every generated line of origin 's' must be (modulo listed substs) a line of the source file
            n_src = n_bad = 0
            srccache = {}
            lines = open(rs).read().split('\n')
            substs = [e for e in mp['notes'] if e['id'].startswith('N-') or e['id'].startswith('I-')]
            for i, o in enumerate(mp['lines']):
                if o.get('o') != 's':
                    continue
                n_src += 1
                f = o['file']
                if f not in srccache:
                    srccache[f] = open(os.path.join(repo, f)).read().split('\n')
                src_line = srccache[f][o['line'] - 1]
                g = lines[i]
                if g.strip() and g.strip() not in src_line and src_line.strip() not in g and norm(g) not in norm(src_line):
                    # allowed if a listed normalisation touches this function/item
                    if not any(e.get('file') == f for e in substs):
                        n_bad += 1
                        print('  MISMATCH %s:%d  gen=%r src=%r' % (f, o['line'], g.strip()[:80], src_line.strip()[:80]))
            print('unit %-4s: %3d functions, %4d source lines copied, %d unexplained differences' % (mp['unit'], len(mp['fns']), n_src, n_bad))
            if n_bad:
                ok = False
    finally:
        shutil.rmtree(out, ignore_errors=True)
    return 0 if ok else 1


if __name__ == '__main__':
    sys.exit(main())
