#!/bin/sh
# seed_regress.sh -- run the check of each kept seeded change (seeded/<id>/patch.diff) on a scratch copy of /repo
# (never touches /repo); prints one block per seed.  Usage: tools/seed_regress.sh [id ...]
cd "$(dirname "$0")/.."
V=$(pwd)
IDS="$@"; [ -n "$IDS" ] || IDS=$(ls seeded | grep -E '^C[0-9]+-m[0-9]+$')
for id in $IDS; do
  P=${id%%-*}
  D=/var/tmp/seedrepo.$$.$id
  rm -rf $D; mkdir -p $D; rsync -a --exclude target --exclude .git /repo/ $D/
  echo "######## $id"
  if ! (cd $D && patch -s -p1 < $V/seeded/$id/patch.diff); then echo "PATCH DOES NOT APPLY"; rm -rf $D; continue; fi
  PROPS=$(python3 -c "import json;print(' '.join(json.load(open('$V/seeded/$id/meta.json')).get('check_results',{'$P':0}).keys()))" 2>/dev/null || echo $P)
  for c in $PROPS; do ./check $c --repo $D --no-evidence 2>&1 | grep -E "^(OK|FAIL|UNDECIDED|VIOLATION|KNOWN|  obligation)" | cut -c1-230; done
  rm -rf $D
done
echo ALLDONE
