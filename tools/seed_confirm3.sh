#!/bin/sh
# seed_confirm3.sh <id> <srcdir> <prop> [more props]
# Confirm a seeded change delivered by a sub-agent as <srcdir>/{patch.diff,demo.rs,notes.md} on a scratch copy of /repo
# (never touches /repo), run the named checks on the changed copy, and keep it as /verif/seeded/<id>/.
# The demonstration is an integration test (demo.rs contains `use ggrs`: placed as tests/<name>.rs) or a unit test
# (placed before the final `}` of the source file the patch touches, i.e. inside its #[cfg(test)] module).
ID=$1; SRC=$2; shift 2; CHECKS="$@"
V=/verif
W=/var/tmp/seedconf.$ID
rm -rf $W; mkdir -p $W; rsync -a --exclude .git --exclude target /repo/ $W/
cd $W
export CARGO_TARGET_DIR=$W/target
T=demo_$(echo $ID | tr 'A-Z-' 'a-z_')
if grep -q 'use ggrs' $SRC/demo.rs; then KIND=integration; else KIND=unit; fi
FILE=$(grep -m1 '^+++ b/' $SRC/patch.diff | sed 's,^+++ b/,,')
place() {
  if [ $KIND = integration ]; then cp $SRC/demo.rs tests/$T.rs
  else python3 - "$FILE" "$SRC/demo.rs" <<'E'
import sys
f, d = sys.argv[1], sys.argv[2]
s = open(f).read().rstrip()
assert s.endswith('}')
open(f, 'w').write(s[:-1] + '\n' + open(d).read() + '\n}\n')
E
  fi
}
run() { if [ $KIND = integration ]; then cargo test --offline --test $T 2>&1; else cargo test --offline --lib seed_demo 2>&1; fi | grep -E "^test result|FAILED|panicked at" | sort | uniq -c | head -8; }
echo "== [$ID] kind=$KIND file=$FILE"
echo "== demo on the clean tree (must pass)"
place; run
echo "== demo with the change (must fail)"
git -C /repo show HEAD:$FILE > $FILE
patch -s -p1 < $SRC/patch.diff || echo "PATCH DOES NOT APPLY"
place; run
echo "== existing suite only, with the change (must pass)"
rm -f tests/$T.rs; git -C /repo show HEAD:$FILE > $FILE; patch -s -p1 < $SRC/patch.diff
cargo test --workspace --no-fail-fast --offline 2>&1 | grep -E "^test result|FAILED" | sort | uniq -c | head -8
echo "== checks on the changed tree"
rm -rf $W/target
for c in $CHECKS; do (cd $V && ./check $c --repo $W --no-evidence 2>&1 | grep -E "^(OK|FAIL|UNDECIDED|VIOLATION|KNOWN|  obligation|  clause)" | cut -c1-260); done
mkdir -p $V/seeded/$ID
cp $SRC/patch.diff $SRC/demo.rs $SRC/notes.md $V/seeded/$ID/
cd /; rm -rf $W
