#!/bin/sh
# seed_final.sh -- run the checks against every kept seeded change the prescribed way:
#   git -C /repo apply <patch> ; ./check ... ; git -C /repo checkout -- .
cd /verif
trap 'git -C /repo checkout -- . 2>/dev/null' EXIT INT TERM
run() {
  P=$1; M=$2; shift 2
  echo "######## $P $M"
  git -C /repo checkout -- . ; git -C /repo apply /tmp/seed-$P/${M}_patch.diff || { echo "PATCH DOES NOT APPLY"; return; }
  for c in "$@"; do ./check $c --no-evidence 2>&1 | grep -E "^(OK|FAIL|UNDECIDED|VIOLATION|KNOWN|  obligation)" | cut -c1-230; done
  git -C /repo checkout -- .
}
run C01 m1 C01
run C01 m2 C01 C02
run C02 m1 C02
run C02 m2 C02 C06
run C03 m1 C03 C07
run C03 m2 C03
run C04 m1 C04
run C04 m2 C04
run C06 m1 C06
run C06 m2 C06
run C07 m1 C07
run C07 m2 C07
run C08 m1 C08 C14
run C08 m2 C08
run C11 m1 C11
run C11 m2 C11
run C12 m1 C12
run C12 m2 C12
run C13 m1 C13
run C13 m2 C13
run C14 m1 C14
run C14 m2 C14
run C15 m1 C15
run C15 m2 C15
run C16 m1 C16
run C16 m2 C16
run C18 m1 C18
run C18 m2 C18
git -C /repo status --short
echo ALLDONE
