"""Minimal Rust lexical scanner: enough to brace-match items and find statement-level
constructs without being fooled by comments, strings, char literals and lifetimes.

Nothing here interprets Rust; it only classifies every character of a source text as
CODE / COMMENT / STRING so that the extractor can copy text verbatim."""
import re

CODE, COMMENT, STRING = 0, 1, 2

_char_lit = re.compile(r"'(\\x[0-9a-fA-F]{2}|\\u\{[0-9a-fA-F_]+\}|\\.|[^\\'\n])'")
_raw_start = re.compile(r'b?r(#*)"')


def classify(text):
    """returns a bytearray cls with cls[i] in {CODE, COMMENT, STRING} for every char"""
    n = len(text)
    cls = bytearray(n)
    i = 0
    while i < n:
        c = text[i]
        if c == '/' and i + 1 < n and text[i + 1] == '/':
            j = text.find('\n', i)
            if j < 0:
                j = n
            for k in range(i, j):
                cls[k] = COMMENT
            i = j
        elif c == '/' and i + 1 < n and text[i + 1] == '*':
            depth = 1
            j = i + 2
            while j < n and depth > 0:
                if text.startswith('/*', j):
                    depth += 1
                    j += 2
                elif text.startswith('*/', j):
                    depth -= 1
                    j += 2
                else:
                    j += 1
            for k in range(i, j):
                cls[k] = COMMENT
            i = j
        elif c == '"' or (c == 'b' and i + 1 < n and text[i + 1] == '"' and not _ident_before(text, i)):
            j = i + (2 if c == 'b' else 1)
            while j < n and text[j] != '"':
                if text[j] == '\\':
                    j += 1
                j += 1
            j += 1
            for k in range(i, min(j, n)):
                cls[k] = STRING
            i = j
        elif (c == 'r' or (c == 'b' and i + 1 < n and text[i + 1] == 'r')) and not _ident_before(text, i) and _raw_start.match(text, i):
            m = _raw_start.match(text, i)
            close = '"' + m.group(1)
            j = text.find(close, m.end())
            j = n if j < 0 else j + len(close)
            for k in range(i, j):
                cls[k] = STRING
            i = j
        elif c == "'":
            m = _char_lit.match(text, i)
            if m:
                for k in range(i, m.end()):
                    cls[k] = STRING
                i = m.end()
            else:
                i += 1  # lifetime
        else:
            i += 1
    return cls


def _ident_before(text, i):
    return i > 0 and (text[i - 1].isalnum() or text[i - 1] == '_')


OPEN = {'{': '}', '(': ')', '[': ']'}
CLOSE = {'}': '{', ')': '(', ']': '['}


def match_close(text, cls, i):
    """text[i] is an opening bracket in CODE; returns index of its matching close"""
    assert text[i] in OPEN and cls[i] == CODE, (text[i:i + 20],)
    stack = []
    n = len(text)
    j = i
    while j < n:
        if cls[j] == CODE:
            ch = text[j]
            if ch in OPEN:
                stack.append(ch)
            elif ch in CLOSE:
                if not stack or stack[-1] != CLOSE[ch]:
                    raise ValueError('unbalanced bracket at offset %d' % j)
                stack.pop()
                if not stack:
                    return j
        j += 1
    raise ValueError('no matching close for bracket at offset %d' % i)


def find_code(text, cls, pat, start=0, end=None):
    """iterate regex matches of pat whose first char lies in CODE"""
    rx = re.compile(pat) if isinstance(pat, str) else pat
    end = len(text) if end is None else end
    for m in rx.finditer(text, start, end):
        if cls[m.start()] == CODE:
            yield m


def line_of(text, off):
    return text.count('\n', 0, off) + 1
