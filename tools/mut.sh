#!/bin/sh
# mut.sh <prop> <file-rel> <sed-expr>   -- apply a sed mutation to a scratch copy of /repo and run the check on it
P=$1; F=$2; E=$3
D=/var/tmp/mrepo.$$
rm -rf $D; mkdir -p $D; rsync -a --exclude target --exclude .git /repo/ $D/
sed -i "$E" $D/$F
if diff -q /repo/$F $D/$F >/dev/null; then echo "MUTATION DID NOT APPLY"; rm -rf $D; exit 3; fi
cd /verif && ./check $P --repo $D --no-evidence; rc=$?
rm -rf $D
echo "rc=$rc"
