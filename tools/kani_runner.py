#!/usr/bin/env python3
"""kani_runner.py -- run Kani harnesses on a scratch copy of the real crate.

The harness modules live in /verif/kani/*.rs and are attached with one `#[cfg(kani)] #[path=...] mod ...;` line
appended to the scratch copy of the source file that owns the private items (so /repo itself is never touched).
Harnesses whose loops are all bounded by a constant trip count and that run with unwinding assertions are complete
for their (stated) symbolic domain; anything else is a BOUNDED stand-in and is labelled so."""
import os
import re
import shutil
import signal
import subprocess
import time

VERIF = os.path.dirname(os.path.dirname(os.path.abspath(__file__)))

ATTACH = {  # harness file -> source file of the crate it becomes a child module of
    'cdc.rs': 'src/network/compression.rs',
    'tsy.rs': 'src/time_sync.rs',
}
HARNESSES = {
    'cdc_delta_total_6': {'file': 'cdc.rs', 'bounded': True, 'timeout': 1500, 'label': 'C14.delta_total',
                          'bound': 'delta_decode on EVERY byte string of length <= 6 against every reference of length <= 2 (unwind 9, unwinding assertions on)'},
    'tsy_average_full': {'file': 'tsy.rs', 'bounded': False, 'timeout': 3000, 'label': 'C15.avg',
                         'bound': 'complete for the stated domain: every a, b in i16, window filled with local=a, remote=b (30-iteration loops fully unrolled, unwinding assertions on)'},
    'tsy_average_small': {'file': 'tsy.rs', 'bounded': False, 'timeout': 1200, 'label': 'C15.avg',
                          'bound': 'complete for the stated domain: every a, b in -64..=64, window filled with local=a, remote=b'},
    'tsy_advance_slot': {'file': 'tsy.rs', 'bounded': False, 'timeout': 600, 'label': 'C15.avg',
                         'bound': 'complete: every frame >= 0, every pair of advantages; loop-free'},
}


def _kill_group(p):
    try:
        os.killpg(os.getpgid(p.pid), signal.SIGKILL)
    except Exception:
        pass


def run_harnesses(repo, names, scratch, pid):
    out = {'harnesses': [], 'cmds': [], 'trusted': []}
    k = os.path.join(scratch, 'krepo')
    if os.path.exists(k):
        shutil.rmtree(k)
    subprocess.run(['rsync', '-a', '--exclude', 'target', '--exclude', '.git', repo.rstrip('/') + '/', k + '/'], check=True)
    files = sorted(set(HARNESSES[n]['file'] for n in names))
    for f in files:
        with open(os.path.join(k, ATTACH[f]), 'a') as fh:
            fh.write('\n#[cfg(kani)]\n#[path = "%s"]\nmod verif_kani_%s;\n' % (os.path.join(VERIF, 'kani', f), f.split('.')[0]))
    env = dict(os.environ, CARGO_NET_OFFLINE='true', CARGO_TARGET_DIR=os.path.join(scratch, 'kani-target'))
    for n in names:
        h = HARNESSES[n]
        cmd = ['cargo', 'kani', '-Z', 'stubbing', '--harness', n]
        out['cmds'].append('CARGO_NET_OFFLINE=true ' + ' '.join(cmd) + '   (in a scratch rsync copy of /repo with kani/%s attached)' % h['file'])
        t0 = time.time()
        p = subprocess.Popen(cmd, cwd=k, env=env, stdout=subprocess.PIPE, stderr=subprocess.STDOUT, text=True, start_new_session=True)
        try:
            so, _ = p.communicate(timeout=h['timeout'])
        except subprocess.TimeoutExpired:
            _kill_group(p)
            so = ''
            rec = {'name': n, 'status': 'undecided', 'msg': 'timeout after %ds' % h['timeout'], 'wall_s': time.time() - t0, 'bounded': h['bounded'], 'bound': h['bound'], 'label': h['label']}
            out['harnesses'].append(rec)
            continue
        finally:
            _kill_group(p)
        rec = {'name': n, 'wall_s': time.time() - t0, 'bounded': h['bounded'], 'bound': h['bound'], 'label': h['label']}
        lines = [l for l in so.split('\n') if 'aborting path' not in l and 'Unwinding' not in l and 'Not unwinding' not in l]
        txt = '\n'.join(lines)
        if 'VERIFICATION:- SUCCESSFUL' in txt and re.search(r'Complete - 1 successfully verified harnesses, 0 failures', txt):
            m = re.search(r'\*\* (\d+) of (\d+) failed', txt)
            rec['status'] = 'verified'
            rec['cbmc_checks'] = int(m.group(2)) if m else None
            cov = re.search(r'\*\* (\d+) of (\d+) cover properties satisfied', txt)
            if cov and cov.group(1) != cov.group(2):
                rec['status'] = 'undecided'
                rec['msg'] = 'vacuity guard: only %s of %s cover properties satisfied' % (cov.group(1), cov.group(2))
        elif 'VERIFICATION:- FAILED' in txt:
            failed = re.findall(r'Failed Checks: (.*)', txt)
            if 'out of memory' in txt or 'CBMC failed' in txt and not failed:
                rec['status'] = 'undecided'
                rec['msg'] = 'CBMC did not finish (memory / internal failure)'
            else:
                rec['status'] = 'failed'
                rec['msg'] = '; '.join(failed[:4])[:600]
                rec['output'] = txt[-3000:]
        else:
            rec['status'] = 'undecided'
            rec['msg'] = 'kani gave no verdict: ' + txt[-600:]
        out['harnesses'].append(rec)
    out['trusted'].append('Kani 0.68 / CBMC 6.11; monomorphic harnesses in /verif/kani/*.rs attached to a scratch copy of the crate')
    return out
