#!/bin/sh
# dev.sh <unit> [function]  -- generate a unit and verify it (optionally one function) with readable output
U=$1; F=$2
python3 /verif/tools/gen.py /verif/units/$U.rs.tmpl --out /var/tmp/gv >/dev/null || { python3 /verif/tools/gen.py /verif/units/$U.rs.tmpl --out /var/tmp/gv; exit 2; }
cd /var/tmp/gv
if [ -n "$F" ]; then
  verus $U.rs --rlimit ${RL:-100} --triggers-mode silent --multiple-errors ${ME:-10} --verify-root --verify-function "$F" 2>&1 | grep -v "^ *|" | grep -v "^WARNING" | cut -c1-${W:-240} | head -${N:-80}
else
  verus $U.rs --rlimit ${RL:-100} --triggers-mode silent --multiple-errors ${ME:-10} 2>&1 | grep -v "^ *|" | grep -v "^WARNING" | cut -c1-${W:-240} | head -${N:-80}
fi
