#!/bin/sh
# mutpy.sh <prop> <file-rel> <old> <new>
P=$1; F=$2; O=$3; N=$4
D=/var/tmp/mrepo.$$
rm -rf $D; mkdir -p $D; rsync -a --exclude target --exclude .git /repo/ $D/
python3 - "$D/$F" "$O" "$N" <<'PY'
import sys
p,o,n=sys.argv[1:4]
s=open(p).read()
assert s.count(o)>=1, 'pattern not found'
s=s.replace(o,n,1)
open(p,'w').write(s)
PY
[ $? -eq 0 ] || { rm -rf $D; exit 3; }
cd /verif && ./check $P --repo $D --no-evidence 2>&1 | tail -4
rm -rf $D
