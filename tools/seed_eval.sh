#!/bin/sh
# seed_eval.sh <prop> <mN> [props to check...]  -- confirm a seeded change from /tmp/seed-<prop>/ and run the checks on it
P=$1; M=$2; shift 2; CHECKS=${*:-$P}
S=/tmp/seed-$P
W=/tmp/ev-$P-$M
git -C /repo worktree remove --force $W 2>/dev/null
git -C /repo worktree add -q --detach $W HEAD || exit 3
cp -r /repo/target $W/target
cd $W
echo "== demo on clean tree (must pass)"
git apply $S/${M}_demo_patch.diff || { echo "demo patch does not apply"; }
DEMO=$(git status --short | awk '{print $2}' | head -3)
cargo test --workspace --offline 2>&1 | grep -E "^test result|FAILED|panicked" | sort | uniq -c | head -8
echo "== with the change: full suite + demo"
git apply $S/${M}_patch.diff || { echo "patch does not apply"; }
cargo test --workspace --offline 2>&1 | grep -E "^test result|FAILED|failed|panicked at" | sort | uniq -c | head -12
echo "== existing suite only, with the change"
git checkout -q -- . ; git clean -fdq -e target; git apply $S/${M}_patch.diff
cargo test --workspace --offline 2>&1 | grep -E "^test result|FAILED" | sort | uniq -c | head -8
echo "== checks on the changed tree"
for c in $CHECKS; do (cd ${VERIF_ROOT:-/verif} && ./check $c --repo $W --no-evidence 2>&1 | grep -E "^(OK|FAIL|UNDECIDED|VIOLATION|KNOWN|  obligation|  clause)" | cut -c1-260); done
cd /; git -C /repo worktree remove --force $W
