#!/usr/bin/env python3
"""runner.py -- generate a unit from /repo's working tree, run Verus on it, map the outcome back to
functions, clause labels and properties.  Used by /verif/check."""
import json
import os
import re
import subprocess
import sys
import time

HERE = os.path.dirname(os.path.abspath(__file__))
sys.path.insert(0, HERE)
import gen  # noqa: E402

VERIF = os.path.dirname(HERE)
UNITS_DIR = os.path.join(VERIF, 'units')
RLIMIT = 300  # Verus rlimit units (~seconds of Z3 work per function).  Exceeding it is UNDECIDED, never a violation.

FAIL_MSGS = ('postcondition not satisfied', 'precondition not satisfied', 'assertion failed',
             'invariant not satisfied', 'possible arithmetic underflow/overflow', 'possible division by zero',
             'decreases not satisfied', 'index out of bounds', 'unreachable', 'possible bit shift',
             'cannot show', 'failed to satisfy', 'might not', 'not satisfied')
UNDECIDED_MSGS = ('rlimit', 'resource limit', 'timed out', 'timeout', 'canceled', 'unknown')

TRUST_RX = re.compile(r'\b(assume_specification|external_body|external_type_specification|external_fn_specification|admit\s*\(|assume\s*\(|axiom|TRUSTED-DECL|accept_recursive_types|external\b|exec_allows_no_decreases_clause)')


def unit_templates():
    return sorted(f for f in os.listdir(UNITS_DIR) if f.endswith('.rs.tmpl'))


def verus_version():
    try:
        out = subprocess.run(['verus', '--version'], capture_output=True, text=True, timeout=60).stdout
        m = re.search(r'Version:\s*(\S+)', out)
        return m.group(1) if m else out.strip().split('\n')[0]
    except Exception as e:  # pragma: no cover
        return 'unknown (%s)' % e


def run_verus(rs, extra=(), timeout=1800, multiple_errors=8):
    cmd = ['verus', rs, '--rlimit', str(RLIMIT), '--triggers-mode', 'silent', '--output-json', '--time-expanded',
           '--error-format=json', '--multiple-errors', str(multiple_errors)] + list(extra)
    t0 = time.time()
    try:
        p = subprocess.run(cmd, capture_output=True, text=True, timeout=timeout, cwd=os.path.dirname(rs))
    except subprocess.TimeoutExpired:
        return {'cmd': ' '.join(cmd), 'timeout': True, 'wall_s': time.time() - t0, 'diags': [], 'json': None, 'rc': None, 'stderr': ''}
    js = None
    try:
        js = json.loads(p.stdout)
    except Exception:
        m = re.search(r'\{.*\}', p.stdout, re.S)
        if m:
            try:
                js = json.loads(m.group(0))
            except Exception:
                js = None
    diags = []
    for ln in p.stderr.split('\n'):
        ln = ln.strip()
        if ln.startswith('{') and '"$message_type"' in ln:
            try:
                d = json.loads(ln)
            except Exception:
                continue
            if d.get('$message_type') == 'diagnostic':
                diags.append(d)
    return {'cmd': ' '.join(cmd), 'timeout': False, 'wall_s': time.time() - t0, 'diags': diags, 'json': js, 'rc': p.returncode,
            'stderr': p.stderr[-4000:] if js is None else ''}


class UnitResult:
    def __init__(self, unit):
        self.unit = unit
        self.gen_error = None
        self.infra_error = None      # front-end / tool failure -> undecided
        self.fns = {}                # qual -> dict(status, smt_ms, props, labels_failed, msgs)
        self.aux = {}                # non-extracted verus functions (lemmas, spec) -> success bool
        self.failures = []           # dicts: fn, label, msg, gen_line, src(file,line), text, kind('fail'|'undecided')
        self.trusted = []
        self.edits = []
        self.cmd = ''
        self.wall_s = 0.0
        self.smt_ms = 0
        self.verified = 0
        self.errors = 0
        self.map = None
        self.vacuity = None


def _fn_of_line(mp, line):
    if 1 <= line <= len(mp['lines']):
        return mp['lines'][line - 1].get('fn')
    return None


def _line_info(mp, line):
    if 1 <= line <= len(mp['lines']):
        return mp['lines'][line - 1]
    return {}


def scan_trusted(rs):
    out = []
    for i, ln in enumerate(open(rs).read().split('\n')):
        st = ln.strip()
        if st.startswith('///'):
            continue
        m = TRUST_RX.search(ln)
        if m and not st.startswith('// ---') and 'use vstd' not in ln:
            if st.startswith('//') and 'TRUSTED-DECL' not in st:
                continue
            out.append('%s:%d: %s' % (os.path.basename(rs), i + 1, st[:200]))
    return out


def verify_unit(repo, tmpl, outdir, do_vacuity=True, drop_hints=()):
    unit = os.path.basename(tmpl).split('.')[0]
    res = UnitResult(unit)
    try:
        rs, mp = gen.generate(repo, tmpl, outdir, drop_hints=drop_hints)
    except gen.GenError as e:
        res.gen_error = str(e)
        return res
    except Exception as e:  # generator bug: undecided, not an alarm
        res.gen_error = 'internal generator error: %r' % (e,)
        return res
    res.map = mp
    res.edits = mp['notes']
    res.trusted = scan_trusted(rs)
    for f in mp['fns']:
        res.fns[f['fn']] = {'status': 'assumed' if f['external_body'] else 'unknown', 'props': f['props'], 'smt_ms': None,
                            'file': f['file'], 'src_lines': f['src_lines'], 'n_spec_lines': f['n_spec_lines'], 'failed': []}
    r = run_verus(rs)
    res.cmd = r['cmd']
    res.wall_s = r['wall_s']
    if r['timeout']:
        res.infra_error = 'verus timed out'
        return res
    js = r['json']
    if js is None:
        res.infra_error = 'verus produced no JSON (rc=%s): %s' % (r['rc'], r['stderr'][-1500:])
        return res
    vr = js.get('verification-results', {})
    res.verified = vr.get('verified', 0)
    res.errors = vr.get('errors', 0)
    hard = [d for d in r['diags'] if d.get('level') == 'error' and not d.get('message', '').startswith('aborting due to')]
    if vr.get('encountered-vir-error') or (vr.get('encountered-error') and res.verified == 0 and res.errors == 0):
        # front-end rejection.  If every error sits in a PROOF HINT (a before/after/atend/loopend annotation) the hints of
        # those functions are dropped and the unit is tried once more: hints are proof help, not code.
        bad_fns = set()
        only_hints = bool(hard)
        for d in hard:
            sp = [x for x in d.get('spans', []) if x.get('is_primary')] or d.get('spans', [])
            if not sp:
                only_hints = False
                break
            li = _line_info(mp, sp[0]['line_start'])
            if li.get('o') == 'i' and li.get('sec') in ('before', 'after', 'atend', 'atstart', 'loopend') and li.get('fn'):
                bad_fns.add(li['fn'])
            else:
                only_hints = False
        if only_hints and bad_fns and not drop_hints:
            return verify_unit(repo, tmpl, outdir, do_vacuity=do_vacuity, drop_hints=tuple(sorted(bad_fns)))
        msgs = '; '.join('%s @%s' % (d['message'][:300], (d['spans'][0]['line_start'] if d['spans'] else '?')) for d in hard[:5])
        res.infra_error = 'verus front end rejected the generated unit (not a verification failure): ' + msgs
        return res
    # per-function success and time
    fb = []
    try:
        for mt in js['times-ms']['smt']['smt-run-module-times']:
            fb.extend(mt.get('function-breakdown', []))
        res.smt_ms = js['times-ms']['smt'].get('total', 0)
    except Exception:
        pass
    short = {}
    for q in res.fns:
        short[q] = q
    # a function extracted under another name (directive option as=): Verus reports it under that name
    alias = {}
    for f in mp['fns']:
        if f.get('alias'):
            alias[(f['fn'].rsplit('::', 1)[0] + '::' if '::' in f['fn'] else '') + f['alias']] = f['fn']
    for e in fb:
        name = e['function'].split('::', 1)[1] if '::' in e['function'] else e['function']
        name = alias.get(name, name)
        if name in res.fns:
            if res.fns[name]['status'] != 'assumed':
                res.fns[name]['status'] = 'verified' if e.get('success') else 'failed'
                res.fns[name]['smt_ms'] = e.get('time')
        else:
            # free functions are reported as unit::name; extracted quals without '::' match directly
            res.aux[name] = bool(e.get('success'))
    # diagnostics -> failures
    for d in hard:
        msg = d.get('message', '')
        low = msg.lower()
        spans = d.get('spans', [])
        prim = [s for s in spans if s.get('is_primary')] or spans
        pline = prim[0]['line_start'] if prim else 0
        fn = None
        label = None
        clause_text = None
        src = None
        for s in ([prim[0]] if prim else []) + [s for s in spans if not s.get('is_primary')]:
            li = _line_info(mp, s['line_start'])
            if fn is None and li.get('fn'):
                fn = li['fn']
            if li.get('o') == 'i' and li.get('label') and label is None:
                label = li['label']
            if li.get('o') == 'i' and clause_text is None and s.get('text'):
                clause_text = ' '.join(t['text'].strip() for t in s['text'])[:600]
            if li.get('o') == 's' and src is None:
                src = '%s:%d' % (li['file'], li['line'])
        # a precondition failure: primary = call site (owner = caller); secondary = callee's clause
        if prim:
            li = _line_info(mp, pline)
            if li.get('fn'):
                fn = li['fn']
        kind = 'undecided' if any(u in low for u in UNDECIDED_MSGS) else ('fail' if any(f in low for f in FAIL_MSGS) else 'other')
        rec = {'unit': unit, 'fn': fn, 'label': label, 'msg': msg, 'gen_line': pline, 'src': src, 'clause': clause_text,
               'kind': kind, 'rendered': (d.get('rendered') or '')[:3000]}
        res.failures.append(rec)
        if fn in res.fns:
            res.fns[fn]['failed'].append(rec)
            if kind == 'fail' and res.fns[fn]['status'] != 'assumed':
                res.fns[fn]['status'] = 'failed'
    # functions that never showed up in the breakdown (e.g. trivially verified without an SMT query)
    for q, f in res.fns.items():
        if f['status'] == 'unknown':
            f['status'] = 'failed' if f['failed'] else 'verified'
    if do_vacuity:
        res.vacuity = vacuity_unit(repo, tmpl, outdir, drop_hints)
    return res


def vacuity_unit(repo, tmpl, outdir, drop_hints=()):
    """every extracted function body and loop body gets `proof { assert(false); }` at its start: each of them
    must FAIL (the context -- preconditions / invariants / type invariants -- is satisfiable)."""
    out = {'probes': 0, 'failed_as_expected': 0, 'vacuous': [], 'error': None}
    try:
        rs, mp = gen.generate(repo, tmpl, outdir, probe='vacuity', drop_hints=drop_hints)
    except Exception as e:
        out['error'] = 'gen: %s' % e
        return out
    lines = open(rs).read().split('\n')
    probe_lines = [i + 1 for i, ln in enumerate(lines) if 'VACUITY-PROBE' in ln]
    out['probes'] = len(probe_lines)
    r = run_verus(rs, multiple_errors=50)
    if r['json'] is None or r['timeout']:
        out['error'] = 'verus failed on the probe file'
        return out
    hit = set()
    for d in r['diags']:
        if d.get('level') == 'error' and 'assertion failed' in d.get('message', ''):
            for s in d.get('spans', []):
                if s['line_start'] in probe_lines:
                    # several probes can share a line only if a loop opens on the fn line; count by (line,col)
                    hit.add((s['line_start'], s['column_start']))
    # count probes per line
    n_probe_occ = sum(ln.count('VACUITY-PROBE') for ln in lines)
    out['probes'] = n_probe_occ
    out['failed_as_expected'] = len(hit)
    if len(hit) < n_probe_occ:
        hit_lines = set(h[0] for h in hit)
        for pl in probe_lines:
            if pl not in hit_lines:
                li = _line_info(mp, pl)
                out['vacuous'].append({'fn': li.get('fn'), 'gen_line': pl, 'text': lines[pl - 1].strip()[:160]})
    out['wall_s'] = r['wall_s']
    return out
