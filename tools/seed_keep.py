#!/usr/bin/env python3
"""seed_keep.py <prop> <mN> <caught-by (comma list or 'none')> <needs...>  -- keep a confirmed seeded change as
/verif/seeded/<prop>-<mN>/ (patch.diff, demo.rs, demo_patch.diff, notes.md, meta.json)"""
import json, os, shutil, sys
prop, m, caught = sys.argv[1], sys.argv[2], sys.argv[3]
needs = ' '.join(sys.argv[4:])
src = '/tmp/seed-%s' % prop
dst = '/verif/seeded/%s-%s' % (prop, m)
os.makedirs(dst, exist_ok=True)
for a, b in (('_patch.diff', 'patch.diff'), ('_demo.rs', 'demo.rs'), ('_demo_patch.diff', 'demo_patch.diff'), ('_notes.md', 'notes.md')):
    if os.path.exists(os.path.join(src, m + a)):
        shutil.copy(os.path.join(src, m + a), os.path.join(dst, b))
files = []
for ln in open(os.path.join(dst, 'patch.diff')):
    if ln.startswith('+++ b/'):
        files.append(ln[6:].strip())
meta = {
    'id': '%s-%s' % (prop, m), 'breaks_property': prop, 'files_changed': files,
    'needs_to_manifest': needs,
    'origin': 'independent sub-agent given only the property text and a scratch worktree (nothing from /verif)',
    'confirmed': 'tools/seed_eval.sh %s %s: demo passes on the clean tree, fails with the change; the existing suite (114 tests + doctests) passes with the change' % (prop, m),
    'caught_by': [] if caught == 'none' else caught.split(','),
    'how_to_run': 'git -C /repo apply /verif/seeded/%s-%s/patch.diff && (cd /verif && ./check <prop>) ; git -C /repo checkout -- .' % (prop, m),
}
json.dump(meta, open(os.path.join(dst, 'meta.json'), 'w'), indent=1)
print('kept', dst)
