#!/bin/sh
# seed_check.sh <patchfile> <props...>  -- apply a seeded patch to a scratch copy of /repo and run the checks on it
PATCH=$1; shift
D=/var/tmp/srepo.$$
rm -rf $D; mkdir -p $D; rsync -a --exclude target --exclude .git /repo/ $D/
(cd $D && patch -p1 -s < $PATCH) || { echo "PATCH DOES NOT APPLY"; rm -rf $D; exit 3; }
for c in "$@"; do (cd ${VERIF_ROOT:-/verif} && ./check $c --repo $D --no-evidence 2>&1 | grep -E "^(OK|FAIL|UNDECIDED|VIOLATION|KNOWN|  obligation|  clause)" | cut -c1-220); done
rm -rf $D
