#!/usr/bin/env python3
"""mkmanifest.py -- writes /verif/MANIFEST.json from /verif/props.json (claimed properties) and
/verif/not_applicable.json, so the two never disagree.  Run after editing either."""
import json
import os

VERIF = os.path.dirname(os.path.dirname(os.path.abspath(__file__)))
props = json.load(open(os.path.join(VERIF, 'props.json')))
na = json.load(open(os.path.join(VERIF, 'not_applicable.json')))
all_ids = [json.loads(l)['id'] for l in open(os.path.join(VERIF, 'properties.jsonl')) if l.strip()]

checks = []
for pid in all_ids:
    if pid not in props:
        continue
    p = props[pid]
    backends = []
    if p.get('verus_units'):
        backends.append('Verus 0.2026.09.13 (Z3) on units ' + '+'.join(p['verus_units']))
    if p.get('kani', {}).get('quick') or p.get('kani', {}).get('thorough'):
        backends.append('Kani 0.68/CBMC 6.11 harnesses')
    c = {
        'property_id': pid,
        'quick_cmd': './check %s --tier quick' % pid,
        'thorough_cmd': './check %s --tier thorough' % pid,
        'evidence_file': '/verif/evidence/%s.json' % pid,
        'replay_cmd_template': './check %s --replay {path}' % pid,
        'engine': 'contracts',
        'level_claimed': {'category': p.get('level', 'proof'), 'text': p['level_text'], 'design_ref': p.get('design_ref', 'DESIGN.md section 5 ' + pid)},
        'level_note': p['level_note'],
        'technique': p.get('technique', 'contract-based deductive verification (Verus) of the real function text, re-extracted each run'),
    }
    checks.append(c)

m = {
    'version': 1,
    'setup_cmd': 'python3 tools/selftest.py --setup',
    'hooks': {
        'guard': 'none: /repo carries no hook or instrumentation commits; contracts live in /verif/units and are spliced into a scratch copy of the function text on every run',
        'enable': 'n/a (Verus units are generated from /repo/src by tools/gen.py; Kani harnesses are appended to a scratch rsync copy of /repo under /var/tmp, removed after the run)',
        'baseline_off_cmd': 'cd /repo && cargo test --workspace --no-fail-fast --offline',
        'source_commits': [],
        'add_only': True,
    },
    'engines': [
        {'name': 'contracts', 'path': '/verif/check', 'serves_properties': [c['property_id'] for c in checks],
         'kind_free_text': 'generator (tools/gen.py) copies the real function text from /repo/src, splices contracts from units/*.inc, Verus/Z3 discharges one obligation per function; Kani/CBMC harnesses for code outside Verus\' front end; vacuity probes; replay files'},
    ],
    'checks': checks,
    'not_applicable': [{'property_id': k, 'reason': v} for k, v in na.items() if k not in props],
    'notes': 'Technique family: contract-based deductive verification of the real code. See DESIGN.md. fix: commits in /repo are listed in KNOWN_FINDINGS.txt.',
}
json.dump(m, open(os.path.join(VERIF, 'MANIFEST.json'), 'w'), indent=1)
missing = [i for i in all_ids if i not in props and i not in na]
if missing:
    raise SystemExit('properties neither claimed nor not_applicable: %s' % missing)
print('MANIFEST.json: %d checks, %d not_applicable' % (len(checks), len(m['not_applicable'])))
