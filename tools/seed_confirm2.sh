#!/bin/sh
# seed_confirm2.sh <id> <srcdir> <prop> [more props]  -- confirm a seeded change delivered by a sub-agent as <srcdir>/{patch.diff,demo.rs,notes.md}
# on a scratch copy of /repo, run the checks on it, and keep it as /verif/seeded/<id>/
ID=$1; SRC=$2; shift 2; CHECKS="$@"
V=/verif
W=/var/tmp/seedconf.$ID
rm -rf $W; mkdir -p $W; rsync -a --exclude .git /repo/ $W/
cd $W
T=demo_$(echo $ID | tr 'A-Z-' 'a-z_')
cp $SRC/demo.rs tests/$T.rs
echo "== demo on the clean tree (must pass)"
cargo test --offline --test $T 2>&1 | grep -E "^test result|FAILED|panicked at" | sort | uniq -c | head -6
echo "== demo with the change (must fail)"
patch -s -p1 < $SRC/patch.diff || echo "PATCH DOES NOT APPLY"
cargo test --offline --test $T 2>&1 | grep -E "^test result|FAILED|panicked at" | sort | uniq -c | head -8
echo "== existing suite only, with the change (must pass)"
rm tests/$T.rs
cargo test --workspace --no-fail-fast --offline 2>&1 | grep -E "^test result|FAILED" | sort | uniq -c | head -8
echo "== checks on the changed tree"
rm -rf $W/target
for c in $CHECKS; do (cd $V && ./check $c --repo $W --no-evidence 2>&1 | grep -E "^(OK|FAIL|UNDECIDED|VIOLATION|KNOWN|  obligation|  clause)" | cut -c1-260); done
mkdir -p $V/seeded/$ID
cp $SRC/patch.diff $SRC/demo.rs $SRC/notes.md $V/seeded/$ID/
cd /; rm -rf $W
