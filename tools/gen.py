#!/usr/bin/env python3
"""gen.py -- build a single-file Verus crate for one verification unit.

Input : a unit template  /verif/units/<unit>.rs.tmpl  (Verus source text with //@@ directives)
        + the CURRENT text of the files under /repo/src named by the directives.
Output: <outdir>/<unit>.rs           the crate handed to `verus`
        <outdir>/<unit>.map.json     per generated line: origin (template / source file:line / inserted
                                     annotation), owning function, clause label; per function: property tags,
                                     the list of drops / normalisations applied (what the extraction changes)

The executable text of every function is COPIED from /repo/src (never retyped); the only things done to
it are listed in DESIGN.md 2.2 (drops D-*, normalisations N-*, insertions I-*) and every instance is
recorded in the map.  A missing item, an ambiguous or lost anchor, or a substitution that does not apply
exactly as many times as declared raises GenError -> the check exits 2 (undecided), never an alarm.

Directives (each on its own line, inside the template):
  //@@ src <alias>=<path relative to repo>
  //@@ item <alias> <struct|enum|const|type> <Name>        copy a type/const declaration
  //@@ fn <alias> <Type>::<name>|<name> [props=C01,C02] [ret=r] [external_body] [impl=<n>] [as=<newname>]
  //@   spec                 following lines go between the signature and the body (requires/ensures/decreases)
  //@   loop <n>             following lines go between the header of the n-th loop and its body
  //@   before[@k] <anchor>  following lines go before the (k-th) source line whose stripped text is <anchor>
  //@   after[@k] <anchor>   ... after it
  //@   subst <ID> <count> <<<old>>> => <<<new>>>     listed normalisation (N-*) or closure contract (I-5)
  //@   substre <ID> <count> <<<regex>>> => <<<new with \\1..>>>   the same, the construct matched by a regular expression
  //@                        whose groups (the expressions inside the construct) are carried over unchanged
  //@   body                 following lines REPLACE nothing: only legal with external_body (ignored body)
  //@@ end
  a clause label is a comment line  `// [C01.q_lookup]`  inside a spec/loop/before/after section; it tags
  the lines that follow it (until the next label or the end of the section).
"""
import json
import os
import re
import sys

sys.path.insert(0, os.path.dirname(os.path.abspath(__file__)))
from rustlex import CODE, classify, match_close, find_code, line_of  # noqa: E402


class GenError(Exception):
    pass


TRACE_MACROS = ('trace', 'debug', 'warn', 'info', 'error')


class Src:
    def __init__(self, repo, rel):
        self.rel = rel
        self.path = os.path.join(repo, rel)
        try:
            self.text = open(self.path).read()
        except OSError as e:
            raise GenError('cannot read %s: %s' % (self.path, e))
        self.cls = classify(self.text)
        # blank out #[cfg(test)] mod ... { } regions from searches
        self.dead = []
        for m in find_code(self.text, self.cls, r'#\[cfg\(test\)\]\s*(pub(\([a-z]+\))?\s+)?mod\s+\w+\s*\{'):
            o = m.end() - 1
            c = match_close(self.text, self.cls, o)
            self.dead.append((m.start(), c + 1))

    def alive(self, off):
        return all(not (a <= off < b) for a, b in self.dead)

    def impl_blocks(self, typ):
        out = []
        for m in find_code(self.text, self.cls, r'\bimpl\b[^{;]*\{'):
            if not self.alive(m.start()):
                continue
            head = m.group(0)
            # the implementing type is the last path before '{' / 'where' (after `for` if a trait impl)
            h = re.sub(r'\bwhere\b.*', '', head, flags=re.S)
            h = h.rsplit(' for ', 1)[-1] if ' for ' in h else h
            h = re.sub(r'^impl\s*(<[^>]*(<[^>]*>[^>]*)*>)?', '', h.strip()).strip()
            mm = re.match(r'((\w+::)*)(\w+)', h)
            if mm and mm.group(3) == typ:
                o = m.end() - 1
                out.append((o, match_close(self.text, self.cls, o)))
        return out

    def find_fn(self, qual, impl_idx=None):
        if '::' in qual:
            typ, name = qual.rsplit('::', 1)
            blocks = self.impl_blocks(typ)
            if not blocks:
                raise GenError('%s: no impl block for type %s' % (self.rel, typ))
        else:
            name = qual
            blocks = [(-1, len(self.text))]
        hits = []
        for bi, (o, c) in enumerate(blocks):
            for m in find_code(self.text, self.cls, r'(pub(\([a-z]+\))?\s+)?(const\s+)?fn\s+' + re.escape(name) + r'\b', o + 1, c):
                if not self.alive(m.start()):
                    continue
                # depth check: directly inside the block (depth 0 relative to it)
                if self._depth(o + 1, m.start()) != 0:
                    continue
                hits.append((bi, m.start()))
        if impl_idx is not None:
            hits = [h for h in hits if h[0] == impl_idx]
        if len(hits) != 1:
            raise GenError('%s: function %s found %d times (need exactly 1)' % (self.rel, qual, len(hits)))
        start = hits[0][1]
        po = self.text.index('(', re.compile(r'\bfn\s+\w+').search(self.text, start).end())
        pc = match_close(self.text, self.cls, po)
        bo = None
        for m in find_code(self.text, self.cls, r'[{;]', pc):
            bo = m.start()
            break
        if bo is None or self.text[bo] != '{':
            raise GenError('%s: function %s has no body' % (self.rel, qual))
        bc = match_close(self.text, self.cls, bo)
        return start, po, pc, bo, bc

    def _depth(self, a, b):
        d = 0
        for i in range(a, b):
            if self.cls[i] == CODE:
                ch = self.text[i]
                if ch == '{':
                    d += 1
                elif ch == '}':
                    d -= 1
        return d

    def find_item(self, kind, name):
        if kind in ('struct', 'enum', 'trait'):
            pat = r'(pub(\([a-z]+\))?\s+)?' + kind + r'\s+' + re.escape(name) + r'\b'
        elif kind == 'const':
            pat = r'(pub(\([a-z]+\))?\s+)?const\s+' + re.escape(name) + r'\s*:'
        elif kind == 'type':
            pat = r'(pub(\([a-z]+\))?\s+)?type\s+' + re.escape(name) + r'\b'
        else:
            raise GenError('unknown item kind ' + kind)
        hits = [m for m in find_code(self.text, self.cls, pat) if self.alive(m.start()) and self._depth(0, m.start()) == 0]
        if len(hits) != 1:
            raise GenError('%s: %s %s found %d times' % (self.rel, kind, name, len(hits)))
        start = hits[0].start()
        for m in find_code(self.text, self.cls, r'[{;]', hits[0].end()):
            if self.text[m.start()] == ';':
                return start, m.start() + 1
            return start, match_close(self.text, self.cls, m.start()) + 1
        raise GenError('%s: unterminated %s %s' % (self.rel, kind, name))


class Piece:
    """a run of text with an origin"""
    __slots__ = ('text', 'kind', 'file', 'line', 'tline', 'label')

    def __init__(self, text, kind, file=None, line=None, tline=None, label=None):
        self.text, self.kind, self.file, self.line, self.tline, self.label = text, kind, file, line, tline, label


def drop_trace_macros(text, base_line, notes, rel):
    """D-1: remove statement-level tracing macros (whole lines only).  Returns (new_text, linemap) where
    linemap[i] is the source line number of line i of new_text."""
    cls = classify(text)
    dead_lines = set()
    for m in find_code(text, cls, r'(?m)^[ \t]*(?:tracing::)?(' + '|'.join(TRACE_MACROS) + r')!\s*\('):
        po = m.end() - 1
        pc = match_close(text, cls, po)
        mm = re.match(r'\s*;[ \t]*(//[^\n]*)?\n', text[pc + 1:])
        if not mm:
            continue  # used as an expression or shares its line with other code: keep
        l0 = text.count('\n', 0, m.start())
        l1 = text.count('\n', 0, pc + 1 + mm.end() - 1)
        for l in range(l0, l1 + 1):
            dead_lines.add(l)
        notes.append({'id': 'D-1', 'what': 'tracing macro %s!(..) removed' % m.group(1),
                      'file': rel, 'line': base_line + l0, 'lines': l1 - l0 + 1})
    lines = text.split('\n')
    keep = [(i, ln) for i, ln in enumerate(lines) if i not in dead_lines]
    return '\n'.join(ln for _, ln in keep), [base_line + i for i, _ in keep]



PARAMS_FILE = os.path.join(os.path.dirname(os.path.dirname(os.path.abspath(__file__))), 'contracts', 'PARAMS.json')
_PARAMS = None
RECORD_PARAMS = {}
# the text (stripped lines, after the listed normalisations) of every function under contract on the pinned tree: proof
# hints are attached to lines of THIS text; when a line is gone from the current source its position is carried over by
# a line diff (ANCHOR-DIFF)
FNTEXT_FILE = os.path.join(os.path.dirname(os.path.dirname(os.path.abspath(__file__))), 'contracts', 'FNTEXT.json')
_FNTEXT = None
RECORD_FNTEXT = {}


def pinned_fntext():
    global _FNTEXT
    if _FNTEXT is None:
        try:
            _FNTEXT = json.load(open(FNTEXT_FILE))
        except Exception:
            _FNTEXT = {}
    return _FNTEXT


LOOP_RX = r'(?<![\w.!])(while|for|loop)\b(?!\s*<)'


def carry_loop(pinned_lines, text, cls, bo, bc, n):
    """the n-th loop of the PINNED text of the function, located in the current text by a line diff.
    returns a match object of the current text, 'gone', or None (no pinned text / cannot tell)"""
    import difflib
    if not pinned_lines:
        return None
    ptext = '\n'.join(pinned_lines)
    pcls = classify(ptext)
    ploops = [m for m in find_code(ptext, pcls, LOOP_RX)]
    if n < 1 or n > len(ploops):
        return None
    pm = ploops[n - 1]
    ip = ptext.count('\n', 0, pm.start())
    kp = sum(1 for m in ploops[:n - 1] if ptext.count('\n', 0, m.start()) == ip)
    cur_lines = [ln.strip() for ln in text.split('\n')]
    sm = difflib.SequenceMatcher(None, pinned_lines, cur_lines, autojunk=False)
    jc = None
    for tag, i1, i2, j1, j2 in sm.get_opcodes():
        if i1 <= ip < i2:
            if tag == 'equal' or (tag == 'replace' and (i2 - i1) == (j2 - j1)):
                jc = j1 + (ip - i1)
            elif tag == 'replace':
                cands = [j for j in range(j1, j2) if re.search(LOOP_RX, cur_lines[j])]
                jc = cands[0] if len(cands) == 1 else None
                if jc is None:
                    return 'gone'
            else:
                return 'gone'
    if jc is None:
        return 'gone'
    # offsets of line jc in text
    off = 0
    for idx, ln in enumerate(text.split('\n')):
        if idx == jc:
            break
        off += len(ln) + 1
    end = off + len(text.split('\n')[jc])
    here = [m for m in find_code(text, cls, LOOP_RX, bo, bc) if off <= m.start() <= end]
    if kp < len(here):
        return here[kp]
    return 'gone'


def carry_anchor(pinned_lines, cur_lines, anchor, k, kind):
    """position (index into cur_lines, 'at start of that line') for a hint anchored before/after the k-th line `anchor`
    of the pinned text, or None"""
    import difflib
    idxs = [i for i, t in enumerate(pinned_lines) if t == anchor]
    if not idxs or (k is None and len(idxs) != 1) or (k is not None and k > len(idxs)):
        return None
    idx = idxs[0] if k is None else idxs[k - 1]
    sm = difflib.SequenceMatcher(None, pinned_lines, cur_lines, autojunk=False)
    for tag, i1, i2, j1, j2 in sm.get_opcodes():
        if i1 <= idx < i2:
            if tag == 'equal':
                j = j1 + (idx - i1)
                return j if kind == 'before' else j + 1
            if tag == 'replace':
                return j1 if kind == 'before' else j2
            if tag == 'delete':
                return j1
    return None


def expected_params():
    global _PARAMS
    if _PARAMS is None:
        try:
            _PARAMS = json.load(open(PARAMS_FILE))
        except Exception:
            _PARAMS = {}
    return _PARAMS


def param_names(text):
    """names of the non-self parameters of the function whose text starts at `fn`, in order (simple `name: Type` and
    `mut name: Type` patterns only; anything else yields None for that position)"""
    cls = classify(text)
    po = text.index('(', re.search(r'\bfn\s+\w+', text).end())
    pc = match_close(text, cls, po)
    inner = text[po + 1:pc]
    parts = []
    depth = 0
    cur = ''
    for ch in inner:
        if ch in '([{<':
            depth += 1
        elif ch in ')]}>':
            depth -= 1
        if ch == ',' and depth == 0:
            parts.append(cur)
            cur = ''
        else:
            cur += ch
    if cur.strip():
        parts.append(cur)
    names = []
    for p_ in parts:
        p_ = p_.strip()
        if re.match(r'^(&\s*(\'\w+\s+)?)?(mut\s+)?self\b', p_):
            continue
        m = re.match(r'^(mut\s+)?([A-Za-z_]\w*)\s*:', p_)
        names.append(m.group(2) if m else None)
    return names

LABEL_RX = re.compile(r'^\s*//\s*\[(C[0-9]{2}\.[A-Za-z0-9_.]+(?:,\s*C[0-9]{2}\.[A-Za-z0-9_.]+)*)\](\s.*)?$')


def expand_fn(src, qual, opts, sections, tline0, notes, drop_hints=False):
    """returns list of (text_line, origin dict) for the function"""
    start, po, pc, bo, bc = src.find_fn(qual, opts.get('impl'))
    raw = src.text[start:bc + 1]
    base_line = line_of(src.text, start)
    text, lm = drop_trace_macros(raw, base_line, notes, src.rel)
    # D-2: attribute / doc lines inside are kept (they are rare); normalisations:
    for s in sections:
        if s['kind'] == 'subst' and s.get('re'):
            # substre: the construct is matched by a regular expression whose groups (the expressions inside it) are carried
            # over unchanged (\\1, \\2 in the replacement); the rewrite must keep every line break of the match
            rx = re.compile(s['old'])
            hits = list(rx.finditer(text))
            for h in reversed(hits):
                rep = h.expand(s['new'])
                if rep.count('\n') != h.group(0).count('\n'):
                    raise GenError('%s %s: substre %s must preserve line count' % (src.rel, qual, s['id']))
                text = text[:h.start()] + rep + text[h.end():]
            if len(hits) != s['count']:
                notes.append({'id': 'SUBST-COUNT', 'what': 'substre %s: expected %d occurrence(s), found %d' % (s['id'], s['count'], len(hits)), 'file': src.rel, 'fn': qual})
            if hits:
                notes.append({'id': s['id'], 'what': 'rewrite /%s/ => %r (x%d)' % (s['old'], s['new'], len(hits)), 'file': src.rel, 'fn': qual})
            continue
        if s['kind'] == 'subst':
            cnt = text.count(s['old'])
            if s['old'].count('\n') != s['new'].count('\n'):
                raise GenError('%s %s: subst %s must preserve line count' % (src.rel, qual, s['id']))
            if cnt == 0 and s['old'].strip():
                # the construct may merely have been re-indented (wrapped in a new block): match again ignoring the
                # leading white space of every line
                rx = re.compile('\n'.join(r'[ \t]*' + re.escape(ln.strip()) if ln.strip() else r'[ \t]*' for ln in s['old'].split('\n')))
                hits = list(rx.finditer(text))
                if hits:
                    for h in reversed(hits):
                        lead = re.match(r'[ \t]*', s['old']).group(0)
                        text = text[:h.start()] + s['new'] + text[h.end():]
                    notes.append({'id': s['id'], 'what': 'rewrite %r => %r (x%d, indentation-insensitive match)' % (s['old'], s['new'], len(hits)),
                                  'file': src.rel, 'fn': qual})
                    if len(hits) != s['count']:
                        notes.append({'id': 'SUBST-COUNT', 'what': 'subst %s: expected %d occurrence(s), found %d' % (s['id'], s['count'], len(hits)), 'file': src.rel, 'fn': qual})
                    continue
            if cnt != s['count']:
                # SUBST-COUNT: the construct the normalisation is for occurs a different number of times than when the
                # template was written (the source changed).  A normalisation replaces a construct by an equivalent one
                # wherever it occurs, so it is applied to every occurrence (possibly none) and the text goes to the verifier
                # as it is: it is then accepted, refuted, or rejected by the front end (UNDECIDED) -- never silently skipped
                notes.append({'id': 'SUBST-COUNT', 'what': 'subst %s: expected %d occurrence(s) of %r, found %d' % (s['id'], s['count'], s['old'], cnt),
                              'file': src.rel, 'fn': qual})
                if cnt == 0:
                    continue
            text = text.replace(s['old'], s['new'])
            notes.append({'id': s['id'], 'what': 'rewrite %r => %r (x%d)' % (s['old'], s['new'], cnt),
                          'file': src.rel, 'fn': qual})
    # N-11: contracts name parameters; a parameter that was merely renamed in the source (e.g. `body` -> `_body`) is
    # renamed back, so that the change reaches the verifier instead of ending in a front-end error
    key = '%s::%s' % (src.rel, qual)
    RECORD_FNTEXT[key] = [ln.strip() for ln in text.split('\n')]
    actual = param_names(text)
    RECORD_PARAMS[key] = actual
    exp = expected_params().get(key)
    if exp and len(exp) == len(actual) and exp != actual:
        ctext = classify(text)
        for a_, e_ in zip(actual, exp):
            if a_ and e_ and a_ != e_ and not re.search(r'\b%s\b' % re.escape(e_), text):
                out_ = []
                last_ = 0
                for m_ in find_code(text, ctext, r'\b%s\b' % re.escape(a_)):
                    out_.append(text[last_:m_.start()])
                    out_.append(e_)
                    last_ = m_.end()
                out_.append(text[last_:])
                text = ''.join(out_)
                ctext = classify(text)
                notes.append({'id': 'N-11', 'what': 'parameter `%s` of %s renamed back to `%s` (the name the contract uses)' % (a_, qual, e_), 'file': src.rel, 'fn': qual})
    if text.startswith('pub fn '):
        # N-6: `pub fn` -> `pub(crate) fn` (visibility only: lets the contract mention crate-private spec functions)
        text = 'pub(crate) fn ' + text[len('pub fn '):]
        notes.append({'id': 'N-6', 'what': 'pub fn -> pub(crate) fn on %s' % qual, 'file': src.rel, 'fn': qual})
    if 'rebind_self' in opts:
        # N-8: Verus rejects `mut self` receivers.  `fn f(mut self, ..) { B }` is rewritten to
        # `fn f(self, ..) { let mut self__ = self; B[self := self__] }` -- a renaming of one binding.
        c0 = classify(text)
        po0 = text.index('(', re.search(r'\bfn\s+\w+', text).end())
        pc0 = match_close(text, c0, po0)
        sig = text[po0:pc0 + 1]
        if not re.search(r'\(\s*mut\s+self\b', sig):
            raise GenError('%s %s: rebind_self given but the receiver is not `mut self`' % (src.rel, qual))
        sig2 = re.sub(r'\(\s*mut\s+self\b', '(self', sig, count=1)
        bo0 = next(m.start() for m in find_code(text, c0, r'\{', pc0))
        body = text[bo0 + 1:]
        cb = classify(body)
        out = []
        last = 0
        for m in find_code(body, cb, r'\bself\b'):
            out.append(body[last:m.start()])
            out.append('self__')
            last = m.end()
        out.append(body[last:])
        text = text[:po0] + sig2 + text[pc0 + 1:bo0 + 1] + ' let mut self__ = self;' + ''.join(out)
        notes.append({'id': 'N-8', 'what': '`mut self` receiver of %s rebound as `let mut self__ = self` (Verus rejects mut self)' % qual, 'file': src.rel, 'fn': qual})
    if 'as' in opts:
        name = qual.rsplit('::', 1)[-1]
        text2 = re.sub(r'\bfn\s+' + re.escape(name) + r'\b', 'fn ' + opts['as'], text, count=1)
        text = text2
    cls = classify(text)
    po = text.index('(', re.search(r'\bfn\s+\w+', text).end())
    pc = match_close(text, cls, po)
    bo = next(m.start() for m in find_code(text, cls, r'\{', pc))
    bc = match_close(text, cls, bo)
    if 'sigonly' in opts:
        # the function is NOT under contract here: only its signature is taken from the source, the body is
        # replaced by a stub (its contract is an ASSUMED one and is listed as such)
        nl = text.count('\n', bo, bc)
        text = text[:bo] + '{ unimplemented!()' + '\n' * nl + '}'
        lm = lm[:text.count('\n') + 1]
        cls = classify(text)
        bc = match_close(text, cls, bo)
        notes.append({'id': 'D-3', 'what': 'body of %s not extracted (assumed contract)' % qual, 'file': src.rel, 'fn': qual})
    inserts = []  # (offset, [ (line_text, tline, label) ], newline_before, newline_after)

    def sec_lines(s):
        out = []
        label = None
        for (ln, tl) in s['lines']:
            m = LABEL_RX.match(ln)
            if m:
                label = m.group(1).strip()
            out.append((ln, tl, label, s['kind']))
        return out

    # ret=r
    sig_edit = None
    if 'ret' in opts:
        sig = text[pc + 1:bo]
        m = re.match(r'(\s*->\s*)(.*?)(\s*(\bwhere\b.*)?)$', sig, re.S)
        if not m:
            raise GenError('%s %s: ret= given but no return type' % (src.rel, qual))
        sig_edit = (pc + 1, bo, '%s(%s: %s)%s' % (m.group(1), opts['ret'], m.group(2).strip(), m.group(3)))
    if 'sigonly' in opts:
        sections = [x for x in sections if x['kind'] in ('spec', 'subst')]  # body-level sections are meaningless without a body
    if drop_hints:
        # the proof hints of this function no longer compile against the changed source (they name a local that is gone):
        # they are proof help, not code -- drop them and let the verifier judge the contract on its own
        sections = [x for x in sections if x['kind'] in ('spec', 'subst', 'loop', 'atstart')]
        notes.append({'id': 'HINTS-DROPPED', 'what': 'proof hints of %s dropped (they do not compile against the changed source)' % qual, 'file': src.rel, 'fn': qual})
    for s in sections:
        if s['kind'] == 'spec':
            inserts.append((bo, sec_lines(s)))
        elif s['kind'] == 'loop':
            loops = [m for m in find_code(text, cls, LOOP_RX, bo, bc)]
            # loops are numbered in the PINNED text of the function; the n-th one is located in the current text by a line
            # diff (a loop that was removed takes its annotations with it: LOOP-GONE; the others keep theirs)
            lk = carry_loop(pinned_fntext().get('%s::%s' % (src.rel, qual)), text, cls, bo, bc, s['n'])
            if lk == 'gone':
                notes.append({'id': 'LOOP-GONE', 'what': 'loop %d of the pinned text of %s is gone; its annotations are dropped' % (s['n'], qual), 'file': src.rel, 'fn': qual})
                continue
            if lk is None:
                if s['n'] > len(loops) or s['n'] < 1:
                    raise GenError('%s %s: loop %d not found (%d loops)' % (src.rel, qual, s['n'], len(loops)))
                lk = loops[s['n'] - 1]
            # only the loop KEYWORD is an anchor; a changed condition must reach the verifier, not stop here
            if 'expect' in s and lk.group(1) != s['expect'].split()[0]:
                raise GenError('%s %s: loop %d is now a `%s` loop (expected %r)' % (src.rel, qual, s['n'], lk.group(1), s['expect']))
            depth = 0
            lb = None
            for i in range(lk.end(), bc):
                if cls[i] != CODE:
                    continue
                ch = text[i]
                if ch in '([':
                    depth += 1
                elif ch in ')]':
                    depth -= 1
                elif ch == '{' and depth == 0:
                    lb = i
                    break
            if lb is None:
                raise GenError('%s %s: loop %d body not found' % (src.rel, qual, s['n']))
            inserts.append((lb, sec_lines(s)))
        elif s['kind'] == 'loopend':
            loops = [m for m in find_code(text, cls, LOOP_RX, bo, bc)]
            # loops are numbered in the PINNED text of the function; the n-th one is located in the current text by a line
            # diff (a loop that was removed takes its annotations with it: LOOP-GONE; the others keep theirs)
            lk = carry_loop(pinned_fntext().get('%s::%s' % (src.rel, qual)), text, cls, bo, bc, s['n'])
            if lk == 'gone':
                notes.append({'id': 'LOOP-GONE', 'what': 'loop %d of the pinned text of %s is gone; its annotations are dropped' % (s['n'], qual), 'file': src.rel, 'fn': qual})
                continue
            if lk is None:
                if s['n'] > len(loops) or s['n'] < 1:
                    raise GenError('%s %s: loop %d not found (%d loops)' % (src.rel, qual, s['n'], len(loops)))
                lk = loops[s['n'] - 1]
            depth = 0
            lb = None
            for i in range(lk.end(), bc):
                if cls[i] != CODE:
                    continue
                ch = text[i]
                if ch in '([':
                    depth += 1
                elif ch in ')]':
                    depth -= 1
                elif ch == '{' and depth == 0:
                    lb = i
                    break
            if lb is None:
                raise GenError('%s %s: loop %d body not found' % (src.rel, qual, s['n']))
            le = match_close(text, cls, lb)
            ls = text.rfind('\n', 0, le) + 1
            inserts.append((ls, sec_lines(s), 'line'))
        elif s['kind'] == 'atstart':
            # first thing in the function body (used for `reveal` of opaque definitions)
            ls = text.index('\n', bo) + 1
            inserts.append((ls, sec_lines(s), 'line'))
        elif s['kind'] == 'atend':
            # just before the closing brace of the function body (only meaningful for functions whose last
            # statement is not a tail expression)
            ls = text.rfind('\n', 0, bc) + 1
            inserts.append((ls, sec_lines(s), 'line'))
        elif s['kind'] in ('before', 'after'):
            # anchor = a line (stripped) of the function text
            offs = []
            all_lines = []
            off = 0
            for ln in text.split('\n'):
                if ln.strip() == s['anchor']:
                    offs.append((off, off + len(ln) + 1))
                all_lines.append((ln.strip(), off, off + len(ln) + 1))
                off += len(ln) + 1
            k = s.get('k')
            a = None
            if k is None and len(offs) == 1:
                a = offs[0]
            elif k is not None and k <= len(offs):
                a = offs[k - 1]
            else:
                # ANCHOR LOST.  The annotation is proof help, not code: losing its anchor must not hide a change from
                # the verifier.  (1) re-anchor on the unique most similar line inside the body; (2) otherwise keep the
                # annotation at the previous insertion point of this function (so ghost variables stay declared and the
                # assertions meet the changed code).  Both are recorded; the verifier then decides.
                import difflib
                # (1) carry the position over from the pinned text of the function by a line diff: a hint placed before
                # (after) a statement that was rewritten goes before (after) what replaced it; a hint on a deleted
                # statement goes where the statement was
                pinned = pinned_fntext().get('%s::%s' % (src.rel, qual))
                j = carry_anchor(pinned, [t for (t, _, _) in all_lines], s['anchor'], k, s['kind']) if pinned else None
                if j is not None and j < len(all_lines) and bo < all_lines[j][1] <= bc:
                    a = (all_lines[j][1], all_lines[j][1])
                    notes.append({'id': 'ANCHOR-DIFF', 'what': 'anchor %r is gone; annotation carried to line %r by a line diff against the pinned text' % (s['anchor'], all_lines[j][0]), 'file': src.rel, 'fn': qual})
                else:
                    # (2) re-anchor on the unique most similar line inside the body
                    body_lines = [(t, o0, o1) for (t, o0, o1) in all_lines if o0 > bo and o1 <= bc + 1 and t]
                    cand = difflib.get_close_matches(s['anchor'], [t for t, _, _ in body_lines], n=2, cutoff=0.72)
                    hits = [x for x in body_lines if cand and x[0] == cand[0]]
                    if cand and len(hits) == 1 and (len(cand) == 1 or difflib.SequenceMatcher(None, s['anchor'], cand[0]).ratio() - difflib.SequenceMatcher(None, s['anchor'], cand[1]).ratio() > 0.05):
                        a = (hits[0][1], hits[0][2])
                        notes.append({'id': 'ANCHOR-FUZZY', 'what': 'anchor %r re-attached to %r' % (s['anchor'], cand[0]), 'file': src.rel, 'fn': qual})
                    else:
                        prev = [t[0] for t in inserts if len(t) == 3]
                        fallback = max(prev) if prev else text.index('\n', bo) + 1
                        a = (fallback, fallback)
                        notes.append({'id': 'ANCHOR-LOST', 'what': 'anchor %r not found; annotation kept at the previous insertion point' % (s['anchor'],), 'file': src.rel, 'fn': qual})
            inserts.append((a[0] if s['kind'] == 'before' else a[1], sec_lines(s), 'line'))
    # assemble
    inserts = [t for _, t in sorted(enumerate(inserts), key=lambda it: (it[1][0], it[0]))]
    out = []  # (line_text, origin)

    def src_line_for(off):
        return lm[min(text.count('\n', 0, off), len(lm) - 1)]

    pos = 0
    cur = ''
    pieces = []  # (text, kind, off)
    edits = [(t[0], t) for t in inserts]
    if sig_edit:
        edits.append((sig_edit[0], ('sig',) + sig_edit))
    edits = [t for _, t in sorted(enumerate(edits), key=lambda it: (it[1][0], it[0]))]
    for off, e in edits:
        if e[0] == 'sig':
            pieces.append(('src', text[pos:e[1]], pos))
            pieces.append(('srcmod', e[3], e[1]))
            pos = e[2]
        else:
            pieces.append(('src', text[pos:off], pos))
            pieces.append(('ins', e, off))
            pos = off
    pieces.append(('src', text[pos:], pos))
    result = []
    linebuf = ''
    linebuf_off = None

    def flush():
        nonlocal linebuf, linebuf_off
        if linebuf_off is not None:
            result.append((linebuf, {'o': 's', 'file': src.rel, 'line': src_line_for(linebuf_off)}))
        linebuf = ''
        linebuf_off = None

    for kind, payload, off in pieces:
        if kind in ('src', 'srcmod'):
            t = payload
            o = off
            for ch in t:
                if linebuf_off is None:
                    linebuf_off = o
                if ch == '\n':
                    flush()
                else:
                    linebuf += ch
                if kind == 'src':
                    o += 1
        else:
            e = payload
            lines = e[1]
            if len(e) == 2:  # mid-line insert (before a '{'): break the line
                if linebuf.strip():
                    flush()
                else:
                    linebuf = ''
                    linebuf_off = None
            else:
                assert linebuf == '' or linebuf_off is None or not linebuf.strip(), linebuf
            for (ln, tl, label, sk) in lines:
                result.append((ln, {'o': 'i', 'tline': tl, 'label': label, 'sec': sk}))
    if linebuf_off is not None:
        flush()
    if 'external_body' in opts:
        result.insert(0, ('#[verifier::external_body]', {'o': 'i', 'tline': tline0, 'label': None}))
    if 'nodecreases' in opts:
        # termination of this function's loops is NOT checked (listed in the trusted base: the attribute is scanned for)
        result.insert(0, ('#[verifier::exec_allows_no_decreases_clause]', {'o': 'i', 'tline': tline0, 'label': None}))
    return result, (src.rel, base_line, line_of(src.text, start + len(raw) - 1))


def expand_item(src, kind, name, sections, notes):
    a, b = src.find_item(kind, name)
    text = src.text[a:b]
    base_line = line_of(src.text, a)
    # N-1 visibility widening on the declaration itself
    m = re.match(r'pub\(crate\)\s+', text)
    if m:
        text = 'pub ' + text[m.end():]
        notes.append({'id': 'N-1', 'what': 'pub(crate) -> pub on %s %s' % (kind, name), 'file': src.rel, 'line': base_line})
    elif not text.startswith('pub') and kind in ('struct', 'enum', 'const', 'type'):
        text = 'pub ' + text
        notes.append({'id': 'N-1', 'what': 'private -> pub on %s %s' % (kind, name), 'file': src.rel, 'line': base_line})
    for s in sections:
        if s['kind'] == 'subst':
            cnt = text.count(s['old'])
            if cnt != s['count']:
                raise GenError('%s %s: subst %s expected %d occurrence(s) of %r, found %d' % (src.rel, name, s['id'], s['count'], s['old'], cnt))
            text = text.replace(s['old'], s['new'])
            notes.append({'id': s['id'], 'what': 'rewrite %r => %r' % (s['old'], s['new']), 'file': src.rel, 'item': name})
    lines = text.split('\n')
    out = []
    for i, ln in enumerate(lines):
        st = ln.strip()
        if st.startswith('///') or st.startswith('//!'):
            continue  # D-2
        if re.match(r'^#\[(default|must_use|allow\(.*\)|serde.*|non_exhaustive)\]$', st):
            notes.append({'id': 'D-2', 'what': 'attribute %s dropped' % st, 'file': src.rel, 'line': base_line + i})
            continue
        out.append((ln, {'o': 's', 'file': src.rel, 'line': base_line + i}))
    for s in sections:
        if s['kind'] in ('before', 'after'):
            idx = [i for i, (ln, _) in enumerate(out) if ln.strip() == s['anchor']]
            if len(idx) != 1:
                raise GenError('%s %s: anchor %r found %d times' % (src.rel, name, s['anchor'], len(idx)))
            at = idx[0] if s['kind'] == 'before' else idx[0] + 1
            ins = [(ln, {'o': 'i', 'tline': tl, 'label': None}) for (ln, tl) in s['lines']]
            out[at:at] = ins
    return out


def parse_opts(words):
    opts = {}
    for w in words:
        if '=' in w:
            k, v = w.split('=', 1)
            opts[k] = v
        else:
            opts[w] = True
    if 'impl' in opts:
        opts['impl'] = int(opts['impl'])
    return opts


SUBST_RX = re.compile(r'^subst(?:re)?\s+(\S+)\s+(\d+)\s+<<<(.*?)>>>\s*=>\s*<<<(.*?)>>>\s*$', re.S)


def generate(repo, tmpl_path, outdir, probe=None, drop_hints=()):
    """probe: None | 'vacuity' -> insert `proof { assert(false); }` at the start of every extracted function
    body and loop body (every one of them must then FAIL: context satisfiable)."""
    unit = os.path.basename(tmpl_path).split('.')[0]
    flat = []  # (text, tfile, tline, external)

    def load(path, external, depth=0):
        if depth > 8:
            raise GenError('include depth')
        try:
            ls = open(path).read().split('\n')
        except OSError as e:
            raise GenError('cannot read template %s: %s' % (path, e))
        for k, ln in enumerate(ls):
            st = ln.strip()
            if st.startswith('//@@ include '):
                w = st.split()
                load(os.path.join(os.path.dirname(path), w[2]), external or ('external' in w[3:]), depth + 1)
            else:
                if external and st.startswith('//@@ fn ') and 'external_body' not in st.split() and 'keep' not in st.split():
                    ln = ln + ' external_body sigonly'
                flat.append((ln, os.path.basename(path), k + 1, external))
    load(tmpl_path, False)
    tl = [t[0] for t in flat]
    torigin = [(t[1], t[2]) for t in flat]
    srcs = {}
    out = []  # (text, origin)
    fns = []
    notes = []
    i = 0
    n = len(tl)
    cur_fn = None
    while i < n:
        ln = tl[i]
        st = ln.strip()
        if st.startswith('//@@ src '):
            alias, rel = st[len('//@@ src '):].strip().split('=', 1)
            srcs[alias] = Src(repo, rel)
            i += 1
        elif st.startswith('//@@ item ') or st.startswith('//@@ fn '):
            words = st.split()
            is_fn = words[1] == 'fn'
            alias = words[2]
            if alias not in srcs:
                raise GenError('template line %d: unknown source alias %s' % (i + 1, alias))
            tline0 = '%s:%d' % torigin[i]
            # collect sections until //@@ end
            sections = []
            i += 1
            cur = None
            while i < n and tl[i].strip() != '//@@ end':
                s = tl[i].strip()
                if s.startswith('//@ '):
                    body = s[4:].strip()
                    w = body.split(None, 1)
                    head = w[0]
                    rest = w[1] if len(w) > 1 else ''
                    if head == 'spec':
                        cur = {'kind': 'spec', 'lines': []}
                    elif head == 'loop':
                        ww = rest.split(None, 1)
                        cur = {'kind': 'loop', 'n': int(ww[0]), 'lines': []}
                        if len(ww) > 1:
                            cur['expect'] = ww[1]
                    elif head.startswith('before') or head.startswith('after'):
                        kind = 'before' if head.startswith('before') else 'after'
                        k = int(head.split('@')[1]) if '@' in head else None
                        cur = {'kind': kind, 'anchor': rest.strip(), 'lines': []}
                        if k:
                            cur['k'] = k
                    elif head == 'loopend':
                        cur = {'kind': 'loopend', 'n': int(rest.split()[0]), 'lines': []}
                    elif head == 'atend':
                        cur = {'kind': 'atend', 'lines': []}
                    elif head == 'atstart':
                        cur = {'kind': 'atstart', 'lines': []}
                    elif head in ('subst', 'substre'):
                        m = SUBST_RX.match(body)
                        if not m:
                            raise GenError('template line %d: bad subst: %s' % (i + 1, body[:80]))
                        cur = {'kind': 'subst', 'id': m.group(1), 'count': int(m.group(2)),
                               'old': m.group(3).replace('\\n', '\n'), 'new': m.group(4).replace('\\n', '\n'), 'lines': [], 're': head == 'substre'}
                    else:
                        raise GenError('template line %d: unknown directive %s' % (i + 1, head))
                    sections.append(cur)
                else:
                    if cur is None:
                        if s:
                            raise GenError('template line %d: text outside a section' % (i + 1))
                    else:
                        cur['lines'].append((tl[i], '%s:%d' % torigin[i]))
                i += 1
            if i >= n:
                raise GenError('template: missing //@@ end')
            i += 1
            if is_fn:
                qual = words[3]
                opts = parse_opts(words[4:])
                fnotes = []
                lines, span = expand_fn(srcs[alias], qual, opts, sections, tline0, fnotes, drop_hints=(qual in drop_hints))
                g0 = len(out) + 1
                if probe == 'vacuity' and 'external_body' not in opts:
                    lines = add_probes(lines)
                for (t, o) in lines:
                    o = dict(o)
                    o['fn'] = qual
                    out.append((t, o))
                fns.append({'fn': qual, 'file': span[0], 'src_lines': [span[1], span[2]], 'gen_lines': [g0, len(out)],
                            'props': [p for p in opts.get('props', '').split(',') if p],
                            'external_body': 'external_body' in opts, 'edits': fnotes, 'alias': opts.get('as'),
                            'n_spec_lines': sum(1 for (t, o) in lines if o['o'] == 'i' and t.strip() and not t.strip().startswith('//'))})
                notes.extend(fnotes)
            else:
                kind, name = words[3], words[4]
                if kind == 'consts':
                    # `//@@ item <alias> consts *`: every top-level `const NAME: T = ..;` of the file, whatever it is called -- so that a constant a
                    # change to the source ADDS (and uses in a function under contract) reaches the verifier instead of ending as a front-end error
                    sr = srcs[alias]
                    names = []
                    for m_ in find_code(sr.text, sr.cls, r'(pub(\([a-z]+\))?\s+)?const\s+([A-Z][A-Z0-9_]*)\s*:'):
                        if sr.alive(m_.start()) and sr._depth(0, m_.start()) == 0 and m_.group(3) not in names:
                            names.append(m_.group(3))
                    lines = []
                    for nm in names:
                        lines.extend(expand_item(sr, 'const', nm, [], notes))
                else:
                    lines = expand_item(srcs[alias], kind, name, sections, notes)
                for (t, o) in lines:
                    out.append((t, o))
        elif st.startswith('//@@'):
            if st.split()[1] in ('unit',):
                i += 1
                continue
            raise GenError('template line %d: unknown directive %r' % (i + 1, st))
        else:
            out.append((ln, {'o': 't', 'tfile': torigin[i][0], 'tline': torigin[i][1]}))
            i += 1
    os.makedirs(outdir, exist_ok=True)
    suffix = '' if probe is None else '_' + probe
    rs = os.path.join(outdir, unit + suffix + '.rs')
    with open(rs, 'w') as f:
        f.write('\n'.join(t for t, _ in out) + '\n')
    mp = {'unit': unit, 'template': tmpl_path, 'file': rs, 'fns': fns, 'notes': notes, 'lines': [o for _, o in out]}
    with open(os.path.join(outdir, unit + suffix + '.map.json'), 'w') as f:
        json.dump(mp, f)
    return rs, mp


def add_probes(lines):
    """insert `proof { assert(false); } // VACUITY-PROBE` after the opening brace of the function body and of
    every loop body.  Works on the assembled lines: the body '{' is the first line that is exactly '{' or ends
    with '{' after the signature/spec; loop bodies likewise follow an inserted invariant block or a header."""
    text = '\n'.join(t for t, _ in lines)
    cls = classify(text)
    po = text.index('(', re.search(r'\bfn\s+\w+', text).end())
    pc = match_close(text, cls, po)
    # body open: first '{' in code after pc that is not inside spec clauses.  Spec clauses may contain braces
    # (if/else, match) but always balanced and always preceded by requires/ensures keywords; the body '{' is
    # the LAST top-level '{' whose matching '}' is the end of text.
    end = len(text) - 1
    while end >= 0 and text[end] != '}':
        end -= 1
    bo = None
    for m in find_code(text, cls, r'\{', pc):
        try:
            c = match_close(text, cls, m.start())
        except ValueError:
            continue
        if c == end:
            bo = m.start()
            break
    if bo is None:
        return lines
    points = [bo]
    for lk in find_code(text, cls, r'(?<![\w.!])(while|for|loop)\b(?!\s*<)', bo, end):
        # loop body '{' = the '{' at paren depth 0 that is followed (matching) by a block, skipping invariant
        # clause braces: take the last '{' candidate before the body by scanning for the first '{' whose
        # preceding non-space token is not part of a spec clause -> simpler: the loop body is the first '{'
        # at depth 0 that starts a line (after inserted invariants) or directly follows the header.
        depth = 0
        cand = []
        i = lk.end()
        while i < end:
            if cls[i] == CODE:
                ch = text[i]
                if ch in '([':
                    depth += 1
                elif ch in ')]':
                    depth -= 1
                elif ch == '{' and depth == 0:
                    c = match_close(text, cls, i)
                    cand.append((i, c))
                    # a spec clause brace is followed by more clause text; the body brace is followed by
                    # statements.  Heuristic: body brace is the first candidate that is on its own line or
                    # (no inserted invariant) the first candidate.
                    line_start = text.rfind('\n', 0, i) + 1
                    if text[line_start:i].strip() == '' or not _has_invariant_between(text, lk.end(), i):
                        points.append(i)
                        break
                    i = c
            i += 1
    out_text = []
    pos = 0
    for p in sorted(set(points)):
        out_text.append(text[pos:p + 1])
        out_text.append(' proof { assert(false); } /*VACUITY-PROBE*/')
        pos = p + 1
    out_text.append(text[pos:])
    new = ''.join(out_text).split('\n')
    assert len(new) == len(lines)
    return [(new[i], lines[i][1]) for i in range(len(lines))]


def _has_invariant_between(text, a, b):
    return re.search(r'\b(invariant|decreases|ensures)\b', text[a:b]) is not None


if __name__ == '__main__':
    import argparse
    ap = argparse.ArgumentParser()
    ap.add_argument('template')
    ap.add_argument('--repo', default='/repo')
    ap.add_argument('--out', required=True)
    ap.add_argument('--probe')
    ap.add_argument('--record-params', action='store_true')
    a = ap.parse_args()
    try:
        rs, mp = generate(a.repo, a.template, a.out, a.probe)
    except GenError as e:
        print('GEN-ERROR: %s' % e)
        sys.exit(2)
    if a.record_params:
        cur = {}
        try:
            cur = json.load(open(PARAMS_FILE))
        except Exception:
            pass
        cur.update(RECORD_PARAMS)
        os.makedirs(os.path.dirname(PARAMS_FILE), exist_ok=True)
        json.dump(cur, open(PARAMS_FILE, 'w'), indent=0, sort_keys=True)
        cur = {}
        try:
            cur = json.load(open(FNTEXT_FILE))
        except Exception:
            pass
        cur.update(RECORD_FNTEXT)
        json.dump(cur, open(FNTEXT_FILE, 'w'), indent=0, sort_keys=True)
    print(rs, len(mp['fns']), 'functions')
