#!/bin/sh
# runall.sh [tier] [extra check args] -- every claimed property, sequentially; prints one line per property
T=${1:-quick}; shift
cd /verif
for p in $(python3 -c "import json;print(' '.join(json.load(open('props.json')).keys()))"); do
  ./check $p --tier $T "$@" 2>&1 | grep -E "^(OK|FAIL|UNDECIDED|VIOLATION|KNOWN)" 
done
