#!/usr/bin/env python3
"""mkprops.py -- the per-property registry (which units / harnesses decide it, what is claimed, what is residue).
Writes /verif/props.json and /verif/not_applicable.json, then MANIFEST.json (tools/mkmanifest.py)."""
import json, os, subprocess
V = os.path.dirname(os.path.dirname(os.path.abspath(__file__)))

COMMON_ASSUME = [
    'ENV-CELL: the user executes every request in order, so the cell of ring slot i holds the frame recorded in the ghost field SyncLayer::ghost_saved (one `assume` in load_frame)',
    'ASSUME-RANGE: sessions are shorter than 2^28 frames (machine arithmetic is checked, not idealised: every +1 / cast carries an overflow obligation)',
    'ASSUME-RING: an input queue never comes within 66 slots of filling its 128-slot ring (how far a remote can run ahead is a cross-peer fact)',
    'ASSUME-EQ: Config::Input::eq is the deterministic function eq_spec (true for #[derive(PartialEq)])',
    'INV-EXT: the session invariant sess_inv is PROVED preserved by the functions under contract (advance_frame_after_poll and everything it calls incl. register_local_inputs, handle_event, add_local_input, set_input_delay) and ASSUMED preserved by the functions listed as external_body (update_player_disconnects, poll_remote_clients, ...)',
    'ASSUME-GOSSIP: a cut-off frame adopted from another peer is newer than the last confirmed frame (see DESIGN.md section 6, observation O1)',
    'extraction: tools/gen.py copies function text from /repo/src; drops D-1..D-3, normalisations N-1..N-6 and insertions I-1..I-5 are listed per run in coverage.extraction_edits',
]

P = {}
def prop(pid, **kw):
    kw.setdefault('level', 'proof')
    kw.setdefault('assumptions', COMMON_ASSUME)
    P[pid] = kw

prop('C01', verus_units=['iq', 'sl', 'p2p', 'pro'],
     technique='Verus contracts on the real InputQueue / SyncLayer / P2PSession text (ring invariant, misprediction detection, rollback list)',
     level_text='Deductive proof (Verus/Z3, unbounded, generic over Config) of the per-peer chain: stored inputs are never rewritten (q_final), a Confirmed lookup returns the stored input (q_lookup), an arriving input that differs from the handed-out prediction sets first_incorrect_frame and nothing clears it but a rollback (q_detect), discarding keeps every frame from last_confirmed-1 on (q_keep), check_simulation_consistency is the minimum over queues and the pending disconnect (s_min), and handle_rollback_and_save goes back to exactly that frame, re-simulates every frame up to the current one with the queues reset, and restores current_frame (r_roll), all against one session invariant preserved by advance_frame, handle_event and set_input_delay.',
     level_note='Per-peer only. UdpProtocol::on_input is under contract for: shape checks drop the packet unchanged, events are only appended, every appended Input event is for a frame newer than everything received before the packet and not newer than the new newest frame, the newest received frame never goes back (C01.deliver). NOT decided: that consecutive frames are delivered exactly once each to the right queue end-to-end (decode and bincode are assumed contracts; P2PSession::poll_remote_clients, which forwards the events, is outside the front end; handle_event states in-order delivery as a precondition); agreement BETWEEN peers; the codec link is bounded (see C14); register_local_inputs / update_player_disconnects / poll_remote_clients are assumed contracts (INV-EXT); sparse saving excluded (contracts require !sparse_saving).',
     claims=['C01.q_lookup', 'C01.q_final', 'C01.q_detect', 'C01.q_keep', 'C01.s_min', 'C01.s_conf', 'C01.r_roll', 'C01.deliver'],
     residue=['protocol delivery (on_input)', 'cross-peer agreement', 'sparse saving', 'several local players (register_local_inputs assumed)'])
prop('C02', verus_units=['sl', 'p2p', 'spc', 'st'],
     technique='Verus: ghost record of handed-out saves + executable-list semantics run_reqs as postcondition',
     level_text='Deductive proof that the Vec<GgrsRequest> returned by P2PSession::advance_frame_after_poll (rollback mode, saving every frame) satisfies run_reqs(list, game before) == Some(game after): every Save names the current frame, every Load names an earlier frame inside the window whose ring cell holds that frame (ghost_saved), Advances step by one; the game ends at current_frame(), unchanged or one higher; frame 0 is saved before it is first simulated; same for SyncTestSession::adjust_gamestate and (Advance-only, gapless) SpectatorSession::advance_frame. The four in-code assertions of load_frame and both assert_eq! of adjust_gamestate are discharged obligations.',
     level_note='ENV-CELL (user executes the requests). Sparse saving (check_last_saved_state) is NOT under contract: contracts require !sparse_saving. Lockstep list: advance_lockstep_frame is an assumed contract. SyncTestSession::advance_frame top level is rejected by the front end (HashMap iteration with reference patterns); only its adjust_gamestate is proved.',
     claims=['C02.save', 'C02.load', 'C02.ring', 'C02.list', 'C02.synctest', 'C02.spect'], residue=['sparse saving', 'lockstep list', 'SyncTestSession::advance_frame top level'])
prop('C03', verus_units=['iq', 'sl', 'p2p'],
     technique='Verus contracts: InputQueue::input / synchronized_inputs postconditions (sync_rel), confirmed_frame as a spec fold',
     level_text='Deductive proof: Confirmed <=> the queue held the frame and the value is the stored one; Predicted values are the sticky prediction, which on entering prediction is the configured predictor applied to the newest stored input (default before any input / for frame 0), with both shipped predictors under contract; Disconnected <=> flagged disconnected with last_frame below the frame, value is a default(); stored inputs are never rewritten or discarded while still needed; confirmed_frame() is the minimum over connected players and handle_event raises last_frame by exactly one step.',
     level_note='"default input" is a relation (call_ensures of Default::default), not a value: Verus gives trait functions no functional spec. Local players: register_local_inputs is proved to feed every local queue up to the current frame and local queues are proved never to enter prediction (player_ok), so their inputs are handed out Confirmed.',
     claims=['C03.confirmed', 'C03.predicted', 'C03.disc', 'C03.final', 'C03.mono', 'C03.local'], residue=['lockstep statuses'])
prop('C04', verus_units=['sl', 'p2p'],
     technique='Verus: prediction gate as postcondition of advance_rollback_frame + window clause of the session invariant',
     level_text='Deductive proof that advance_rollback_frame simulates a new frame iff current - last_confirmed < max_prediction (after raising last_confirmed to min(confirmed_frame(), current)), that the session invariant current - last_confirmed <= max_prediction is preserved, and that every load_frame call meets the window assertion (a discharged obligation of each caller). Lockstep: advance_frame_after_poll itself adds no save in lockstep mode.',
     level_note='Everything inside advance_lockstep_frame (only Confirmed/Disconnected statuses, stall leaves current_frame unchanged) is an ASSUMED contract: its closure with a tuple pattern is rejected by Verus and a session cannot be built under Kani.',
     claims=['C04.gate', 'C04.window', 'C04.ls_save'], residue=['advance_lockstep_frame'])
prop('C06', verus_units=['spc', 'sl', 'st'],
     technique='Verus: 60-slot ring invariant of SpectatorSession + pacing/cursor postconditions',
     level_text='Deductive proof for the spectator side: advance_frame emits only AdvanceFrame requests, for consecutive frames from the old cursor, 1 per call or min(catchup_speed, frames behind, 59) when more than max_frames_behind are buffered; on any error nothing is delivered and the cursor has not moved (no frame is skipped), given the ring invariant, which handle_event is proved to preserve; confirmed_inputs on the host returns the stored input / a default for disconnected players.',
     level_note='inputs_at_frame is under contract (normalisation N-7 of its iter().enumerate().map().collect()): it returns the buffered inputs of exactly that frame, Disconnected exactly for players the host reports disconnected earlier, PredictionThreshold / SpectatorTooFarBehind otherwise. The host side send_confirmed_inputs_to_spectators (HashMap iteration) is not under contract; that a frame\'s inputs arrive whole, player 0 first, is a precondition of handle_event (residue: on_input).',
     claims=['C06.pace', 'C06.cursor', 'C06.values'], residue=['send_confirmed_inputs_to_spectators', 'spectators do not change the players\' simulation'])
prop('C07', verus_units=['sl', 'p2p'],
     technique='Verus: rollback-to-minimum postcondition + sync_rel for disconnected players + disconnect_player guards',
     level_text='Deductive proof of the second half of the property: given the disconnected flag and disconnect_frame, handle_rollback_and_save rolls back to min(disconnect_frame, mispredictions), re-simulates to the current frame and clears disconnect_frame; in that re-simulation and after, the player gets (default, Disconnected) exactly for frames above its last_frame and its stored input below; disconnect_player rejects unknown/local/already-disconnected handles without changing anything and otherwise cuts at the last received frame.',
     level_note='disconnect_player_at_frame (HashMap::get_mut, `for &handle in`) is an ASSUMED contract, so a change inside it is NOT detected; event timing (NetworkInterrupted / Disconnected after the timeouts, once) lives in UdpProtocol::poll behind Instant::now: not decided.',
     claims=['C07.resim', 'C07.default', 'C07.api'], residue=['disconnect_player_at_frame', 'timing of events', 'spectators'])
prop('C08', verus_units=['cdc', 'pro'], native={'quick': ['cdc_exhaust'], 'thorough': ['cdc_exhaust']},
     technique='Verus proof of the stream validator against a functional spec + bounded exhaustive execution of the real codec',
     level_text='Deductive proof (unbounded) that check_rle_stream, which now guards bitfield_rle::decode, is total and returns Ok(n) exactly for well-formed streams with n <= MAX_DECODED_LEN; BOUNDED stand-in (not a proof): exhaustive execution of the real decode/delta_decode on every byte string of length <= 3 with panics, overflow checks and allocation size observed.',
     level_note='Only the codec/shape part of the property. Also proved (unit pro): handle_message drops every packet after shutdown or with a magic other than the one pinned by the handshake without changing anything. on_input (normalisations N-2, N-9, N-10) drops a packet with the wrong number of connection statuses or a negative start frame without changing anything, and a packet whose payload does not decode or has the wrong per-player size without delivering anything from the bad frame on. NOT decided: the address filter (poll_remote_clients); bincode and decode are assumed contracts inside on_input. bincode::deserialize assumed total. The bounded part is labelled bounded in the evidence.',
     claims=['C08.codec_total', 'C08.magic', 'C08.shape'], residue=['address filter', 'to_player_inputs (bincode)'])
prop('C11', verus_units=['iq', 'sl', 'p2p'],
     technique='Verus contracts on set_frame_delay / add_input (announced == stored, gapless)',
     level_text='Deductive proof at the queue, where the stream is produced: set_frame_delay returns exactly the frames it stores (consecutive from last_added+1, each a copy of the newest input), keeps the no-silent-fill invariant, add_input returns the frame where the input is stored or -1 with the queue unchanged; P2PSession::set_input_delay keeps last_frame == newest stored frame and rejects non-local handles unchanged; all in-code assertions discharged.',
     level_note='The path from the queue to the wire (queue_outgoing_local_input, BTreeMap) and spectators are assumed contracts. The pinned code violated this property (KNOWN_FINDINGS.txt: fixed c60e500).',
     claims=['C11.fill', 'C11.add', 'C11.sess'], residue=['outgoing_local_inputs bookkeeping'])
prop('C12', verus_units=['pro', 'p2p', 'spc'],
     technique='Verus contracts on on_sync_reply, advance_frame_after_poll (state gate) and both handle_event (queue cap)',
     level_text='Deductive proof of three clauses: a sync reply counts only while Synchronizing and only for a nonce that was sent and not yet counted, decrements the remaining round trips by one, emits Synchronizing{total 5, count 5-remaining} or exactly one Synchronized with state Running and the peer magic pinned; advance_frame returns NotSynchronized and changes nothing unless Running; after every handle_event (player and spectator sessions) the event queue holds at most 100 entries.',
     level_note='Also proved: handle_message raises NetworkResumed exactly when a packet arrives while an interruption is notified and the endpoint runs, and clears the notification; every endpoint event becomes exactly one user event for its address (none for inputs), oldest dropped first. Timing, NetworkInterrupted/Disconnected after the timeouts and keep-alive live in UdpProtocol::poll (Instant arithmetic, Drain return type): not decided. check_initial_sync is an assumed contract. Observation O3 (DESIGN.md): check_wait_recommendation and compare_local_checksums_against_peers push without trimming, so the bound can be exceeded by those pushes until the next handle_event.',
     claims=['C12.sync', 'C12.gate', 'C12.cap', 'C12.order', 'C12.resume'], residue=['poll timing', 'check_initial_sync'])
prop('C13', verus_units=['st', 'sl', 'iq'],
     technique='Verus contracts on start_synctest_session, SyncTestSession::new/add_local_input/adjust_gamestate',
     level_text='Deductive proof that start_synctest_session accepts exactly check_distance < max_prediction and !sparse_saving and returns a well-formed session; that the forced rollback (adjust_gamestate) emits an executable, frame-consistent list (Load, then Save-except-first/Advance per frame, back at the same frame) with every queue reset; add_local_input rejects handles outside 0..num_players unchanged.',
     level_note='The detection clauses (never MismatchedChecksum for a deterministic game; reported within check_distance+2 frames otherwise) are NOT decided: checksums_consistent (HashMap::retain closure) and advance_frame (`for (&handle, &input) in map.iter()`) are rejected by Verus; a Kani run of a real SyncTestSession did not complete (HashMap).',
     claims=['C13.reject', 'C02.synctest'], residue=['MismatchedChecksum clauses', 'SyncTestSession::advance_frame'])
prop('C14', verus_units=['cdc'], native={'quick': ['cdc_exhaust'], 'thorough': ['cdc_exhaust']}, kani={'quick': [], 'thorough': ['cdc_delta_total_6']},
     technique='Verus proof of check_rle_stream + bounded exhaustive execution (native) + bounded Kani harness for delta_decode',
     level_text='Deductive proof (unbounded) of the stream validator as for C08. BOUNDED stand-ins, labelled so: exhaustive native execution of the real encode/decode/delta_* (every payload <= 3 bytes; every reference <= 2 and <= 2-3 inputs <= 3 bytes over {00,01,ff,80}; seeded long inputs around the run-length boundaries), and (thorough) Kani on delta_decode for every string <= 6 bytes.',
     level_note='Round trip and totality above the bounds are NOT decided (delta_encode/decode use zip/iter_mut and Box<dyn Error+Send+Sync>: rejected by Verus; CBMC did not finish on the run-length layer: DESIGN.md 7). The pinned code violated totality (KNOWN_FINDINGS.txt: fixed 2eb3e94).',
     claims=['C14.decode_total(validator proved; codec bounded)', 'C14.rt(bounded)', 'C14.delta_rt(bounded)', 'C14.delta_total(bounded)'], residue=['lengths above the bounds'])
prop('C15', verus_units=['pro', 'p2p'], kani={'quick': ['tsy_average_small', 'tsy_advance_slot'], 'thorough': ['tsy_average_full', 'tsy_advance_slot']},
     technique='Kani (complete for the stated domain: fixed 30-trip loops) for TimeSync, Verus contracts for the recommendation gate and advantage formulas',
     level_text='Kani proves, for every a,b in the stated domain (quick: -64..=64, thorough: all of i16), that a window filled with local=a, remote=b averages to (b-a)/2 and that the two sides sum to zero, and that advance_frame writes exactly slot frame%30. Verus proves: WaitRecommendation is pushed iff current_frame > next_recommended_sleep and frames_ahead >= 3, carries frames_ahead, and moves next_recommended_sleep 60 frames on; local_frame_advantage == last_recv + (rtt/2)*fps/1000 - local_frame; the quality report carries it clamped to i16 and the receiver stores exactly that; network_stats returns NotSynchronized unless Synchronizing/Running and otherwise reports the two advantages unswapped.',
     level_note='"Settles at about +-k", ping within one tick of the true RTT: closed-loop behaviour over time, not decided. ASSUME-RTT: (rtt/2)*fps fits an i32 (observation O2). ASSUME-CLOCK for network_stats. max_frame_advantage is an assumed (pure) contract.',
     claims=['C15.avg', 'C15.gate', 'C15.adv', 'C15.stats'], residue=['convergence', 'ping accuracy'])
prop('C16', verus_units=['iq', 'sl', 'p2p', 'pro', 'st'],
     technique='Verus: error paths with frame conditions (*final == *old), panic-freedom = every assert!/panic! is a requires-false obligation',
     level_text='Deductive proof of validate_player_handle (Ok iff player handle < num_players / spectator handle >= num_players), start_synctest_session, and the run-time guards with frame conditions: P2PSession::add_local_input / disconnect_player / set_input_delay / network_stats, SyncTestSession::add_local_input, advance_frame_after_poll (every Err leaves the session untouched); every in-code assertion of every function under contract is a discharged obligation.',
     level_note='Builder setters (add_player, with_fps, with_max_frames_behind, with_catchup_speed, with_input_delay, with_max_prediction_window, with_sparse_saving_mode, with_check_distance) are under contract through normalisation N-8 (`mut self` rebound). NOT decided: with_num_players and start_p2p_session (HashMap iteration), start_spectator_session, advance_lockstep_frame.',
     claims=['C16.handle', 'C16.builder', 'C13.reject', 'C16.guards'], residue=['with_num_players', 'start_p2p_session', 'sessions as a whole never panic'])
prop('C18', verus_units=['iq', 'pro', 'p2p', 'spc'],
     technique='Verus: queue-length postconditions and ring invariant',
     level_text='Deductive proof for three buffers: both event queues are <= 100 after every handle_event and check_wait_recommendation appends at most one; pending_output grows by one per send_input, asks for a disconnect beyond 128, and pop_pending_output removes exactly the acknowledged prefix; every input queue keeps length <= 128 (representation invariant) and discarding never grows it.',
     level_note='outgoing_local_inputs, recv_inputs, both checksum maps (closures / BTreeMap entry API) are not under contract; bounds that depend on how far a remote can run ahead are ASSUME-RING.',
     claims=['C12.cap', 'C18.pending', 'C18.ring', 'C18.events'], residue=['outgoing_local_inputs', 'recv_inputs', 'checksum maps'])

NA = {
 'C05': 'liveness over fault sequences and virtual time: no contract (pre/postcondition or invariant of one function or data structure) expresses "eventually resumes"; Kani cannot execute Instant::now; the recovery argument is a two-endpoint protocol property',
 'C09': 'two-peer invariant over user checksums and the relative order of confirmation and re-simulation, plus bounded liveness; the implementing functions iterate HashMaps with tuple-pattern closures (rejected by Verus) and need a live session with endpoints (Kani internal compiler error)',
 'C10': 'a statement about three or more sessions and the gossip between them; it hinges on update_player_disconnects (HashMap iteration over endpoints), outside both verifiers\' reach (see DESIGN.md section 6, observation O1 for what was noticed there)',
 'C17': 'two-run relational property over HashMap iteration order; Verus has no specification of HashMap iteration (those loops are rejected), Kani executes one fixed order',
}
json.dump(P, open(os.path.join(V, 'props.json'), 'w'), indent=1)
json.dump(NA, open(os.path.join(V, 'not_applicable.json'), 'w'), indent=1)
subprocess.run(['python3', os.path.join(V, 'tools', 'mkmanifest.py')], check=True)
