mod stubs;
use ggrs::{GgrsError, GgrsRequest, PlayerType, SessionBuilder, UdpNonBlockingSocket};
use stubs::{StubConfig, StubInput};

#[test]
fn probe_two_local_players_different_initial_delay() -> Result<(), GgrsError> {
    let addr1 = stubs::localhost(7791);
    let addr2 = stubs::localhost(7792);
    let mut sess1 = SessionBuilder::<StubConfig>::new()
        .with_num_players(3)?
        .add_player(PlayerType::Local, 0)?
        .add_player(PlayerType::Local, 1)?
        .add_player(PlayerType::Remote(addr2), 2)?
        .start_p2p_session(UdpNonBlockingSocket::bind_to_port(7791).unwrap())?;
    let mut sess2 = SessionBuilder::<StubConfig>::new()
        .with_num_players(3)?
        .add_player(PlayerType::Remote(addr1), 0)?
        .add_player(PlayerType::Remote(addr1), 1)?
        .add_player(PlayerType::Local, 2)?
        .start_p2p_session(UdpNonBlockingSocket::bind_to_port(7792).unwrap())?;
    stubs::sync_p2p_sessions(&mut sess1, &mut sess2);
    sess1.set_input_delay(0, 2).unwrap();
    let mut log1 = Vec::new();
    let mut log2 = Vec::new();
    for i in 0..30u32 {
        sess1.poll_remote_clients();
        sess2.poll_remote_clients();
        sess1.add_local_input(0, StubInput { inp: 100 + i }).unwrap();
        sess1.add_local_input(1, StubInput { inp: 200 + i }).unwrap();
        sess2.add_local_input(2, StubInput { inp: 300 + i }).unwrap();
        for (sess, log) in [(&mut sess1, &mut log1), (&mut sess2, &mut log2)] {
            for r in sess.advance_frame().unwrap() {
                match r {
                    GgrsRequest::SaveGameState { cell, frame } => { cell.save(frame, Some(stubs::StateStub{frame, state:0}), None); log.truncate(log.len()); }
                    GgrsRequest::LoadGameState { frame, .. } => { log.truncate(frame as usize); }
                    GgrsRequest::AdvanceFrame { inputs } => { log.push(inputs.iter().map(|x| x.0.inp).collect::<Vec<_>>()); }
                }
            }
        }
    }
    for _ in 0..5 { sess1.poll_remote_clients(); sess2.poll_remote_clients(); }
    for f in 0..6 { println!("frame {f}: owner {:?} remote {:?}", log1[f], log2[f]); }
    assert_eq!(&log1[..20], &log2[..20]);
    Ok(())
}
