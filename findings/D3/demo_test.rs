    // D3 demonstration (C11): every fill announced by set_frame_delay must be what the queue holds,
    // each frame is announced exactly once, and the announced stream has no gap.
    #[test]
    fn verif_d3_decrease_then_increase_before_drain() {
        let mut queue = InputQueue::<TestConfig>::new();
        queue.set_frame_delay(3);
        let mut announced: Vec<(Frame, u8)> = Vec::new();
        for i in 0..5_i32 {
            let f = queue.add_input(PlayerInput::new(i, TestInput { inp: 10 + i as u8 }));
            if f != NULL_FRAME {
                announced.push((f, 10 + i as u8));
            }
        }
        for d in [1usize, 2usize] {
            for fill in queue.set_frame_delay(d) {
                announced.push((fill.frame, fill.input.inp));
            }
        }
        for i in 5..9_i32 {
            let f = queue.add_input(PlayerInput::new(i, TestInput { inp: 10 + i as u8 }));
            if f != NULL_FRAME {
                announced.push((f, 10 + i as u8));
            }
        }
        // gapless, no duplicates
        for (k, (f, _)) in announced.iter().enumerate() {
            assert_eq!(*f, announced[0].0 + k as i32, "announced stream {announced:?}");
        }
        // announced == stored
        for (f, v) in &announced {
            assert_eq!(queue.confirmed_input(*f).input.inp, *v, "frame {f}: announced {announced:?}");
        }
    }

    #[test]
    fn verif_d3_two_increases_without_input_between() {
        let mut queue = InputQueue::<TestConfig>::new();
        let mut announced: Vec<(Frame, u8)> = Vec::new();
        for i in 0..4_i32 {
            let f = queue.add_input(PlayerInput::new(i, TestInput { inp: i as u8 }));
            announced.push((f, i as u8));
        }
        for d in [2usize, 4usize] {
            for fill in queue.set_frame_delay(d) {
                announced.push((fill.frame, fill.input.inp));
            }
        }
        let f = queue.add_input(PlayerInput::new(4, TestInput { inp: 4 }));
        assert_ne!(f, NULL_FRAME);
        announced.push((f, 4));
        for (k, (f, _)) in announced.iter().enumerate() {
            assert_eq!(*f, k as i32, "announced stream {announced:?}");
        }
        for (f, v) in &announced {
            assert_eq!(queue.confirmed_input(*f).input.inp, *v);
        }
    }
