//! Demonstration for property C05 ("a lost acknowledgement ... cannot leave the receiver permanently unable to accept the
//! sender's retransmissions ... host->spectator links"): a host with one local player and one spectator over an in-memory hub.
//! For `gap` frames every packet from the spectator to the host is lost (acks), packets from the host still arrive.  Then the
//! link is healthy again.  Expected by C05: the spectator resumes advancing, no Disconnected event.
//! Copy to /repo/tests/ (next to stubs.rs) and run:  cargo test --offline --test demo_spectator_lost_acks -- --nocapture
mod stubs;
use ggrs::{GgrsError, GgrsEvent, GgrsRequest, Message, NonBlockingSocket, PlayerType, SessionBuilder, SessionState};
use std::collections::{HashMap, HashSet};
use std::net::SocketAddr;
use std::sync::{Arc, Mutex};
use std::time::{Duration, Instant};
use stubs::{StateStub, StubConfig, StubInput};

#[derive(Default)]
struct Hub { queues: HashMap<SocketAddr, Vec<(SocketAddr, Message)>>, blocked: HashSet<(SocketAddr, SocketAddr)> }
struct FakeSocket { me: SocketAddr, hub: Arc<Mutex<Hub>> }
impl NonBlockingSocket<SocketAddr> for FakeSocket {
    fn send_to(&mut self, msg: &Message, addr: &SocketAddr) {
        let mut h = self.hub.lock().unwrap();
        if h.blocked.contains(&(self.me, *addr)) { return; }
        h.queues.entry(*addr).or_default().push((self.me, msg.clone()));
    }
    fn receive_all_messages(&mut self) -> Vec<(SocketAddr, Message)> {
        self.hub.lock().unwrap().queues.remove(&self.me).unwrap_or_default()
    }
}

fn scenario(gap: usize) -> (i32, i32, bool) {
    let ha: SocketAddr = stubs::localhost(9101 + gap as u16);
    let sa: SocketAddr = stubs::localhost(9301 + gap as u16);
    let hub = Arc::new(Mutex::new(Hub::default()));
    let mut host = SessionBuilder::<StubConfig>::new()
        .with_num_players(1).unwrap()
        .add_player(PlayerType::Local, 0).unwrap()
        .add_player(PlayerType::Spectator(sa), 1).unwrap()
        .start_p2p_session(FakeSocket { me: ha, hub: hub.clone() }).unwrap();
    let mut spec = SessionBuilder::<StubConfig>::new()
        .with_num_players(1).unwrap()
        .start_spectator_session(ha, FakeSocket { me: sa, hub: hub.clone() });
    let deadline = Instant::now() + Duration::from_secs(3);
    while Instant::now() < deadline {
        host.poll_remote_clients(); spec.poll_remote_clients();
        if host.current_state() == SessionState::Running && spec.current_state() == SessionState::Running { break; }
        std::thread::sleep(Duration::from_millis(5));
    }
    assert_eq!(host.current_state(), SessionState::Running);
    assert_eq!(spec.current_state(), SessionState::Running);
    let mut spec_frame = -1i32;
    let mut host_disconnected_spectator = false;
    let mut tick = |host: &mut ggrs::P2PSession<StubConfig>, spec: &mut ggrs::SpectatorSession<StubConfig>, i: u32, spec_frame: &mut i32, disc: &mut bool| {
        host.add_local_input(0, StubInput { inp: i }).unwrap();
        for r in host.advance_frame().unwrap() {
            if let GgrsRequest::SaveGameState { cell, frame } = r { cell.save(frame, Some(StateStub { frame, state: 0 }), None); }
        }
        for e in host.events() { if let GgrsEvent::Disconnected { addr } = e { if addr == sa { *disc = true; } } }
        spec.poll_remote_clients();
        match spec.advance_frame() {
            Ok(reqs) => { for r in reqs { if let GgrsRequest::AdvanceFrame { .. } = r { *spec_frame += 1; } } }
            Err(GgrsError::PredictionThreshold) => {}
            Err(e) => panic!("unexpected spectator error {e:?}"),
        }
    };
    let mut i = 0u32;
    for _ in 0..30 { i += 1; tick(&mut host, &mut spec, i, &mut spec_frame, &mut host_disconnected_spectator); }
    // the acknowledgements of `gap` frames are lost
    hub.lock().unwrap().blocked.insert((sa, ha));
    for _ in 0..gap { i += 1; tick(&mut host, &mut spec, i, &mut spec_frame, &mut host_disconnected_spectator); }
    hub.lock().unwrap().blocked.clear();
    // healthy network again
    for _ in 0..200 { i += 1; tick(&mut host, &mut spec, i, &mut spec_frame, &mut host_disconnected_spectator); std::thread::sleep(Duration::from_millis(1)); }
    (host.current_frame(), spec_frame, host_disconnected_spectator)
}

#[test]
fn spectator_survives_a_short_ack_outage() {
    let (h, s, disc) = scenario(8);
    println!("gap 8: host at {h}, spectator simulated up to {s}, disconnected: {disc}");
    assert!(!disc && h - s < 20, "spectator must catch up after 8 lost acks: host {h}, spectator {s}, disconnected {disc}");
}

#[test]
fn spectator_survives_a_longer_ack_outage() {
    // 30 frames = half a second at 60 fps, far below the 2 s disconnect timeout
    let (h, s, disc) = scenario(30);
    println!("gap 30: host at {h}, spectator simulated up to {s}, disconnected: {disc}");
    assert!(!disc && h - s < 20, "spectator must catch up after 30 lost acks: host {h}, spectator {s}, disconnected {disc}");
}
