//! Demonstration for observation O1 / property C10 ("surviving peers agree on the cut-off of a dropped player").
//! Three peers A, B, D with one local player each, over an in-memory hub.  D's last packets reach A but not B; then D dies.
//! Expected by C10: A and B keep running without panicking and end up with identical inputs/statuses for D on every frame.
//! Copy to /repo/tests/ (next to stubs.rs) and run:  cargo test --offline --test demo_three_peers -- --nocapture
mod stubs;
use ggrs::{GgrsError, GgrsEvent, GgrsRequest, InputStatus, Message, NonBlockingSocket, PlayerType, SessionBuilder, SessionState};
use std::collections::{HashMap, HashSet};
use std::net::SocketAddr;
use std::sync::{Arc, Mutex};
use std::time::{Duration, Instant};
use stubs::{StateStub, StubConfig, StubInput};

#[derive(Default)]
struct Hub {
    queues: HashMap<SocketAddr, Vec<(SocketAddr, Message)>>,
    blocked: HashSet<(SocketAddr, SocketAddr)>, // (from, to)
}
struct FakeSocket { me: SocketAddr, hub: Arc<Mutex<Hub>> }
impl NonBlockingSocket<SocketAddr> for FakeSocket {
    fn send_to(&mut self, msg: &Message, addr: &SocketAddr) {
        let mut h = self.hub.lock().unwrap();
        if h.blocked.contains(&(self.me, *addr)) { return; }
        h.queues.entry(*addr).or_default().push((self.me, msg.clone()));
    }
    fn receive_all_messages(&mut self) -> Vec<(SocketAddr, Message)> {
        let mut h = self.hub.lock().unwrap();
        h.queues.remove(&self.me).unwrap_or_default()
    }
}

type Log = Vec<Vec<(u32, InputStatus)>>;
fn run(sess: &mut ggrs::P2PSession<StubConfig>, log: &mut Log) -> bool {
    match sess.advance_frame() {
        Ok(reqs) => {
            for r in reqs {
                match r {
                    GgrsRequest::SaveGameState { cell, frame } => cell.save(frame, Some(StateStub { frame, state: 0 }), None),
                    GgrsRequest::LoadGameState { frame, .. } => log.truncate(frame as usize),
                    GgrsRequest::AdvanceFrame { inputs } => log.push(inputs.iter().map(|x| (x.0.inp, x.1)).collect()),
                }
            }
            true
        }
        Err(GgrsError::PredictionThreshold) => false,
        Err(e) => panic!("unexpected error {e:?}"),
    }
}

#[test]
fn three_peers_one_dies_five_frames_apart() { scenario(5); }
#[test]
fn three_peers_one_dies_one_frame_apart() { scenario(1); }

/// `gap` = number of D's last frames that reach A but not B
fn scenario(gap: usize) {
    let a: SocketAddr = stubs::localhost(9001 + 10 * gap as u16);
    let b: SocketAddr = stubs::localhost(9002 + 10 * gap as u16);
    let d: SocketAddr = stubs::localhost(9003 + 10 * gap as u16);
    let hub = Arc::new(Mutex::new(Hub::default()));
    let mk = |me: SocketAddr, handle: usize| {
        let mut sb = SessionBuilder::<StubConfig>::new()
            .with_num_players(3).unwrap()
            .with_max_prediction_window(8)
            .with_disconnect_timeout(Duration::from_millis(400))
            .with_disconnect_notify_delay(Duration::from_millis(100));
        for (h, addr) in [(0usize, a), (1, b), (2, d)] {
            sb = sb.add_player(if h == handle { PlayerType::Local } else { PlayerType::Remote(addr) }, h).unwrap();
        }
        sb.start_p2p_session(FakeSocket { me, hub: hub.clone() }).unwrap()
    };
    let mut sa = mk(a, 0);
    let mut sb_ = mk(b, 1);
    let mut sd = mk(d, 2);
    let deadline = Instant::now() + Duration::from_secs(3);
    while Instant::now() < deadline {
        sa.poll_remote_clients(); sb_.poll_remote_clients(); sd.poll_remote_clients();
        if [&sa, &sb_, &sd].iter().all(|s| s.current_state() == SessionState::Running) { break; }
        std::thread::sleep(Duration::from_millis(5));
    }
    assert!([&sa, &sb_, &sd].iter().all(|s| s.current_state() == SessionState::Running));
    let (mut la, mut lb, mut ld): (Log, Log, Log) = (vec![], vec![], vec![]);
    let mut i = 0u32;
    // phase 1: everybody alive
    for _ in 0..20 {
        i += 1;
        sa.add_local_input(0, StubInput { inp: 1000 + i }).unwrap();
        sb_.add_local_input(1, StubInput { inp: 2000 + i }).unwrap();
        sd.add_local_input(2, StubInput { inp: 3000 + i }).unwrap();
        run(&mut sa, &mut la); run(&mut sb_, &mut lb); run(&mut sd, &mut ld);
    }
    // phase 2: D's packets no longer reach B (but still reach A)
    hub.lock().unwrap().blocked.insert((d, b));
    for _ in 0..gap {
        i += 1;
        sa.add_local_input(0, StubInput { inp: 1000 + i }).unwrap();
        sb_.add_local_input(1, StubInput { inp: 2000 + i }).unwrap();
        sd.add_local_input(2, StubInput { inp: 3000 + i }).unwrap();
        run(&mut sa, &mut la); run(&mut sb_, &mut lb); run(&mut sd, &mut ld);
    }
    // phase 3: D dies
    { let mut h = hub.lock().unwrap(); for x in [a, b] { h.blocked.insert((d, x)); h.blocked.insert((x, d)); } }
    drop(sd);
    let mut disc = [false, false];
    let end = Instant::now() + Duration::from_millis(2500);
    while Instant::now() < end {
        i += 1;
        let _ = sa.add_local_input(0, StubInput { inp: 1000 + i });
        let _ = sb_.add_local_input(1, StubInput { inp: 2000 + i });
        run(&mut sa, &mut la); run(&mut sb_, &mut lb);
        for (k, s) in [&mut sa, &mut sb_].into_iter().enumerate() {
            for e in s.events() { if let GgrsEvent::Disconnected { addr } = e { if addr == d { disc[k] = true; } } }
        }
        std::thread::sleep(Duration::from_millis(10));
    }
    assert!(disc[0] && disc[1], "both survivors must have seen D disconnect: {disc:?}");
    let n = la.len().min(lb.len()).saturating_sub(10);
    println!("A simulated {} frames, B {} frames; comparing the first {n}", la.len(), lb.len());
    let mut first_diff = None;
    for f in 0..n {
        if la[f][2] != lb[f][2] && first_diff.is_none() { first_diff = Some(f); }
    }
    if let Some(f) = first_diff {
        for g in f.saturating_sub(2)..(f + 8).min(n) { println!("frame {g}: A sees D = {:?}   B sees D = {:?}", la[g][2], lb[g][2]); }
        panic!("C10 violated: survivors disagree on the dropped player's input from frame {f} on");
    }
}
