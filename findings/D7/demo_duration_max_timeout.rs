//! Finding D7 (property C16), repaired by /repo commit 91f687a: a session built with
//! with_disconnect_timeout(Duration::MAX) or with_disconnect_notify_delay(Duration::MAX) panicked in
//! UdpProtocol::poll ("overflow when adding duration to instant") as soon as it was Running.
//! Place in /repo/tests/ and run `cargo test --offline --test demo_duration_max_timeout -- --test-threads=1`:
//! timeout_max and notify_max fail on 50dc810 and pass on 91f687a; timeout_normal passes on both.
mod stubs;
use ggrs::{PlayerType, SessionBuilder, SessionState, UdpNonBlockingSocket};
use instant::Duration;
use stubs::StubConfig;

fn run(timeout: Duration, notify: Duration, p1: u16, p2: u16) {
    let a1 = stubs::localhost(p1);
    let a2 = stubs::localhost(p2);
    let s1 = UdpNonBlockingSocket::bind_to_port(p1).unwrap();
    let s2 = UdpNonBlockingSocket::bind_to_port(p2).unwrap();
    let mut sess1 = SessionBuilder::<StubConfig>::new()
        .with_disconnect_timeout(timeout).with_disconnect_notify_delay(notify)
        .add_player(PlayerType::Local, 0).unwrap().add_player(PlayerType::Remote(a2), 1).unwrap()
        .start_p2p_session(s1).unwrap();
    let mut sess2 = SessionBuilder::<StubConfig>::new()
        .with_disconnect_timeout(timeout).with_disconnect_notify_delay(notify)
        .add_player(PlayerType::Remote(a1), 0).unwrap().add_player(PlayerType::Local, 1).unwrap()
        .start_p2p_session(s2).unwrap();
    for _ in 0..200 {
        sess1.poll_remote_clients();
        sess2.poll_remote_clients();
        std::thread::sleep(std::time::Duration::from_millis(2));
    }
    assert_eq!(sess1.current_state(), SessionState::Running);
}
#[test] fn timeout_max() { run(Duration::MAX, Duration::from_millis(500), 17711, 17712); }
#[test] fn notify_max() { run(Duration::from_millis(2000), Duration::MAX, 17713, 17714); }
#[test] fn timeout_normal() { run(Duration::from_millis(2000), Duration::from_millis(500), 17715, 17716); }
