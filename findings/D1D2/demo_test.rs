    // D1/D2 demonstration (C08, C14): decode must be total on arbitrary bytes and must not allocate
    // unboundedly.
    #[test]
    fn verif_d1_decode_total_on_all_short_payloads() {
        let reference = vec![0u8; 4];
        let mut panics = 0u32;
        for a in 0..=255u8 {
            let r = std::panic::catch_unwind(|| { let _ = decode(&[0u8; 4], &[a]); });
            if r.is_err() { panics += 1; }
            for b in 0..=255u8 {
                let r = std::panic::catch_unwind(|| { let _ = decode(&[0u8; 4], &[a, b]); });
                if r.is_err() { panics += 1; }
            }
        }
        let _ = reference;
        assert_eq!(panics, 0, "decode panicked on {panics} payloads of length <= 2");
    }

    #[test]
    fn verif_d2_decode_rejects_huge_run_lengths() {
        // a repeat run of 2^30 bytes: must be rejected, not allocated
        let t0 = std::time::Instant::now();
        assert!(decode(&[0u8; 4], &[0xFF, 0xFF, 0xFF, 0xFF, 0x0F]).is_err());
        // a 9-byte varint asking for ~2^61 bytes
        assert!(decode(&[0u8; 4], &[0xFD, 0xFF, 0xFF, 0xFF, 0xFF, 0xFF, 0xFF, 0xFF, 0x7F]).is_err());
        assert!(t0.elapsed().as_millis() < 2000, "decode spent {:?} on a 5-byte payload", t0.elapsed());
    }
