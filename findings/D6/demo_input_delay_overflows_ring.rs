//! Finding D6 (property C16): SessionBuilder accepts input delays / check distances that do not fit the
//! 128-slot input queue; the session it returns panics (`assert!(self.length <= INPUT_QUEUE_LENGTH)` in
//! InputQueue::add_input_by_frame) within the first 128 frames.
//!
//! Place in /repo/tests/ and run `cargo test --offline --test demo_input_delay_overflows_ring`.
//! On the unchanged tree the three `*_fits` tests pass and the three `*_overflows` tests fail with that panic.
//! The thresholds are exactly the ones of clause C16.ring:
//!   synctest:  check_distance + input_delay + 2 <= 128
//!   p2p, all players local:  input_delay + 2 <= 128  (with remote players: max_prediction + input_delay + 2)
mod stubs;
use ggrs::{Message, NonBlockingSocket, PlayerType, SessionBuilder};
use std::net::SocketAddr;
use stubs::{GameStub, StubConfig, StubInput};

struct NullSocket;
impl NonBlockingSocket<SocketAddr> for NullSocket {
    fn send_to(&mut self, _msg: &Message, _addr: &SocketAddr) {}
    fn receive_all_messages(&mut self) -> Vec<(SocketAddr, Message)> {
        Vec::new()
    }
}

fn synctest(check_distance: usize, delay: usize) {
    let mut sess = SessionBuilder::<StubConfig>::new()
        .with_num_players(2)
        .unwrap()
        .with_max_prediction_window(check_distance + 1)
        .with_check_distance(check_distance)
        .with_input_delay(delay)
        .start_synctest_session()
        .expect("the builder accepts this configuration");
    let mut stub = GameStub::new();
    for i in 0..300 {
        sess.add_local_input(0, StubInput { inp: i }).unwrap();
        sess.add_local_input(1, StubInput { inp: i }).unwrap();
        let reqs = sess.advance_frame().unwrap();
        stub.handle_requests(reqs);
    }
}

fn p2p_all_local(delay: usize) {
    let mut sess = SessionBuilder::<StubConfig>::new()
        .with_num_players(2)
        .unwrap()
        .with_input_delay(delay)
        .add_player(PlayerType::Local, 0)
        .unwrap()
        .add_player(PlayerType::Local, 1)
        .unwrap()
        .start_p2p_session(NullSocket)
        .expect("the builder accepts this configuration");
    let mut stub = GameStub::new();
    for i in 0..300 {
        sess.add_local_input(0, StubInput { inp: i }).unwrap();
        sess.add_local_input(1, StubInput { inp: i }).unwrap();
        let reqs = sess.advance_frame().unwrap();
        stub.handle_requests(reqs);
    }
}

#[test]
fn synctest_delay_124_fits() {
    synctest(2, 124);
}
#[test]
fn synctest_delay_125_overflows() {
    synctest(2, 125);
}
#[test]
fn synctest_check_distance_126_fits() {
    synctest(126, 0);
}
#[test]
fn synctest_check_distance_127_overflows() {
    synctest(127, 0);
}
#[test]
fn p2p_all_local_delay_126_fits() {
    p2p_all_local(126);
}
#[test]
fn p2p_all_local_delay_127_overflows() {
    p2p_all_local(127);
}
