//! Finding D6 (property C16), second demonstration: a P2P session with a REMOTE player. Two peers over localhost UDP
//! synchronise, play 30 frames together, then peer 2 goes silent (well inside the 2 s disconnect timeout). Peer 1 keeps
//! advancing until its prediction window is used up; its local input queue then holds max_prediction + input_delay + 2
//! frames. The builder accepts any window and delay; with max_prediction + input_delay + 2 > 128 peer 1 panics in
//! InputQueue::add_input_by_frame (`assert!(self.length <= INPUT_QUEUE_LENGTH)`) instead of stalling.
//! Place in /repo/tests/ and run `cargo test --offline --test demo_prediction_window_overflows_ring -- --test-threads=1`:
//! the two `*_fits` tests pass, the two `*_overflows` tests fail with that panic: exactly the threshold of clause C16.ring.
mod stubs;
use ggrs::{PlayerType, SessionBuilder, SessionState, UdpNonBlockingSocket};
use stubs::{StubConfig, StubInput, GameStub};

fn run_w(maxpred: usize, delay: usize, p1: u16, p2: u16, warm: u32) {
    let a1 = stubs::localhost(p1);
    let a2 = stubs::localhost(p2);
    let s1 = UdpNonBlockingSocket::bind_to_port(p1).unwrap();
    let s2 = UdpNonBlockingSocket::bind_to_port(p2).unwrap();
    let mut sess1 = SessionBuilder::<StubConfig>::new()
        .with_max_prediction_window(maxpred).with_input_delay(delay)
        .add_player(PlayerType::Local, 0).unwrap().add_player(PlayerType::Remote(a2), 1).unwrap()
        .start_p2p_session(s1).unwrap();
    let mut sess2 = SessionBuilder::<StubConfig>::new()
        .with_max_prediction_window(maxpred).with_input_delay(delay)
        .add_player(PlayerType::Remote(a1), 0).unwrap().add_player(PlayerType::Local, 1).unwrap()
        .start_p2p_session(s2).unwrap();
    for _ in 0..200 {
        sess1.poll_remote_clients();
        sess2.poll_remote_clients();
        std::thread::sleep(std::time::Duration::from_millis(2));
    }
    assert_eq!(sess1.current_state(), SessionState::Running);
    // the peer goes silent (well inside the 2 s disconnect timeout): sess1 keeps advancing until the prediction window is used up
    let mut stub = GameStub::new();
    let mut stub2 = GameStub::new();
    // both peers play `warm` frames together, then peer 2 goes silent
    for i in 0..warm {
        sess1.add_local_input(0, StubInput { inp: i }).unwrap();
        sess2.add_local_input(1, StubInput { inp: i }).unwrap();
        stub.handle_requests(sess1.advance_frame().unwrap());
        stub2.handle_requests(sess2.advance_frame().unwrap());
        std::thread::sleep(std::time::Duration::from_millis(1));
    }
    for _ in 0..20 { sess1.poll_remote_clients(); sess2.poll_remote_clients(); std::thread::sleep(std::time::Duration::from_millis(1)); }
    let mut last = -1;
    let mut stalled = false;
    for i in 0..400u32 {
        sess1.add_local_input(0, StubInput { inp: i }).unwrap();
        match sess1.advance_frame() {
            Ok(reqs) => stub.handle_requests(reqs),
            Err(e) => panic!("unexpected error {e:?}"),
        }
        if sess1.current_frame() == last { stalled = true; break; }
        last = sess1.current_frame();
    }
    assert!(stalled, "the session should stall at the prediction threshold");
}
#[test] fn maxpred_126_fits() { run_w(126, 0, 17741, 17742, 30); }
#[test] fn maxpred_127_overflows() { run_w(127, 0, 17743, 17744, 30); }
#[test] fn maxpred_60_delay_66_fits() { run_w(60, 66, 17745, 17746, 30); }
#[test] fn maxpred_60_delay_67_overflows() { run_w(60, 67, 17747, 17748, 30); }
