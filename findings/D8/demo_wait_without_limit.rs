//! Finding D8 (property C16), repaired by /repo commit (see KNOWN_FINDINGS.txt): in lockstep mode
//! advance_frame_with_wait_timeout(Duration::MAX) panicked ("overflow when adding duration to instant") as soon as its
//! first attempt stalled. Two peers over an in-memory hub that delays one packet by three polls; single-threaded.
//! Place in /repo/tests/ and run `cargo test --offline --test demo_wait_without_limit`: wait_without_limit fails on 91f687a
//! and passes on the fix; wait_one_second passes on both.
mod stubs;
use ggrs::{Message, NonBlockingSocket, PlayerType, SessionBuilder, SessionState};
use instant::Duration;
use std::cell::RefCell;
use std::collections::VecDeque;
use std::net::SocketAddr;
use std::rc::Rc;
use stubs::{StubConfig, StubInput};

/// in-memory network: every packet becomes visible to its receiver after `hold` further receive calls of that receiver
#[derive(Default)]
struct Hub {
    boxes: Vec<(SocketAddr, VecDeque<(SocketAddr, Message, u32)>)>,
    hold: u32,
}
struct HubSocket {
    me: SocketAddr,
    hub: Rc<RefCell<Hub>>,
}
impl NonBlockingSocket<SocketAddr> for HubSocket {
    fn send_to(&mut self, msg: &Message, addr: &SocketAddr) {
        let mut hub = self.hub.borrow_mut();
        let hold = hub.hold;
        if let Some((_, q)) = hub.boxes.iter_mut().find(|(a, _)| a == addr) {
            q.push_back((self.me, msg.clone(), hold));
        }
    }
    fn receive_all_messages(&mut self) -> Vec<(SocketAddr, Message)> {
        let mut hub = self.hub.borrow_mut();
        let me = self.me;
        let (_, q) = hub.boxes.iter_mut().find(|(a, _)| *a == me).unwrap();
        let mut out = Vec::new();
        let mut keep = VecDeque::new();
        while let Some((from, msg, left)) = q.pop_front() {
            if left == 0 {
                out.push((from, msg));
            } else {
                keep.push_back((from, msg, left - 1));
            }
        }
        *q = keep;
        out
    }
}

fn run(timeout: Duration) {
    let a1: SocketAddr = "127.0.0.1:1".parse().unwrap();
    let a2: SocketAddr = "127.0.0.1:2".parse().unwrap();
    let hub = Rc::new(RefCell::new(Hub { boxes: vec![(a1, VecDeque::new()), (a2, VecDeque::new())], hold: 0 }));
    let mut sess1 = SessionBuilder::<StubConfig>::new()
        .with_max_prediction_window(0)
        .add_player(PlayerType::Local, 0).unwrap()
        .add_player(PlayerType::Remote(a2), 1).unwrap()
        .start_p2p_session(HubSocket { me: a1, hub: hub.clone() }).unwrap();
    let mut sess2 = SessionBuilder::<StubConfig>::new()
        .with_max_prediction_window(0)
        .add_player(PlayerType::Remote(a1), 0).unwrap()
        .add_player(PlayerType::Local, 1).unwrap()
        .start_p2p_session(HubSocket { me: a2, hub: hub.clone() }).unwrap();
    for _ in 0..100 {
        sess1.poll_remote_clients();
        sess2.poll_remote_clients();
        std::thread::sleep(std::time::Duration::from_millis(5));
        if sess1.current_state() == SessionState::Running && sess2.current_state() == SessionState::Running {
            break;
        }
    }
    assert_eq!(sess1.current_state(), SessionState::Running);
    assert_eq!(sess2.current_state(), SessionState::Running);

    // peer 2 submits frame 0; its packet reaches peer 1 only at peer 1's fourth poll from now
    hub.borrow_mut().hold = 3;
    sess2.add_local_input(1, StubInput { inp: 2 }).unwrap();
    let _ = sess2.advance_frame().unwrap();
    hub.borrow_mut().hold = 0;

    // peer 1 (lockstep) stalls at its first attempt and waits for the confirmation
    sess1.add_local_input(0, StubInput { inp: 1 }).unwrap();
    let reqs = sess1.advance_frame_with_wait_timeout(timeout).unwrap();
    assert_eq!(reqs.len(), 1, "the wait ends with frame 0 confirmed and advanced");
    assert_eq!(sess1.current_frame(), 1);
}
#[test]
fn wait_one_second() {
    run(Duration::from_secs(1));
}
#[test]
fn wait_without_limit() {
    run(Duration::MAX);
}
